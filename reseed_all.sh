#!/bin/bash
# regression over every kept seed: applies it to /repo, runs its property's quick check, reverts; prints one line per seed.
# NEVER run while another check is building (it patches /repo temporarily).
cd "$(dirname "$0")"
for d in seeded/*/; do
  id=$(basename $d); prop=${id%%-*}
  git -C /repo apply "$PWD/$d/patch.diff" 2>/dev/null || { echo "$id patch-does-not-apply"; continue; }
  VERIF_DIR=/var/tmp/seedrun ./check $prop quick > /var/tmp/reseed.log 2>&1; rc=$?
  git -C /repo checkout -q -- .
  echo "$id rc=$rc $(grep -c '^VIOLATION property' /var/tmp/reseed.log) violation line(s)"
done
