#!/bin/bash
# seedtest.sh <dir with patch.diff [demo_test.go meta.json]> <prop> [tier] — applies the seeded change to /repo, runs the check, reverts.
# With CONFIRM=<worktree> also confirms the demonstration (fails with the patch, passes without) in that scratch worktree.
set -u
D="$1"; PROP="$2"; TIER="${3:-quick}"
export GOFLAGS=-mod=mod GOPROXY=off GOSUMDB=off GOTOOLCHAIN=local
if [ -n "${CONFIRM:-}" ] && [ -f "$D/demo_test.go" ]; then
  WT="$CONFIRM"
  PKG=$(grep -o -m1 -E '(x|precompiles|app|utils)/[A-Za-z0-9_/]+' "$D/demo_test.go" | head -1)
  PKG="${DEMO_PKG:-$PKG}"
  PKG="${PKG%/}"
  ( cd "$WT" && git checkout -q -- . && git clean -fdq
    cp "$D/demo_test.go" "$WT/$PKG/zz_demo_test.go"
    NAME=$(grep -o -m1 -E 'func (Test[A-Za-z0-9_]+)' "$WT/$PKG/zz_demo_test.go" | awk '{print $2}')
    echo "== demo without patch ($PKG $NAME)"; go test -vet=off -count=1 -run "$NAME" "./$PKG/" 2>&1 | grep -v 'ld:\|^#' | tail -3
    git apply "$D/patch.diff" && echo "== demo with patch"; go test -vet=off -count=1 -run "$NAME" "./$PKG/" 2>&1 | grep -v 'ld:\|^#' | tail -3
    echo "== build with patch"; go build ./... 2>&1 | grep -v 'ld:\|^#' | tail -3
    git checkout -q -- . ; rm -f "$WT/$PKG/zz_demo_test.go" )
fi
cd /repo && git apply "$D/patch.diff" || { echo "patch does not apply"; exit 2; }
cd /verif && VERIF_DIR=/var/tmp/seedrun ./check "$PROP" "$TIER" > /var/tmp/seedrun.log 2>&1; RC=$?
cd /repo && git checkout -q -- .
grep -E '^VIOLATION property|^C[0-9]+ (quick|thorough)|INCONCLUSIVE' /var/tmp/seedrun.log | cut -c1-220 | head -8
grep -E '^VIOLATION-DETAIL' /var/tmp/seedrun.log | cut -c1-400 | head -3
echo "exit=$RC"
