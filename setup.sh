#!/bin/bash
# setup_cmd: offline build of the harness (warms the Go build cache).
set -e
export GOFLAGS=-mod=mod GOPROXY=off GOSUMDB=off GOTOOLCHAIN=local
cd "$(dirname "$0")/harness"
cp /repo/go.sum go.sum
mkdir -p bin
go build -tags verif -o bin/runner ./cmd/runner
echo "setup ok"
