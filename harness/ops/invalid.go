package ops

import (
	"fmt"
	"math/big"
	"strings"

	sdkmath "cosmossdk.io/math"
	sdk "github.com/cosmos/cosmos-sdk/types"
	"github.com/ethereum/go-ethereum/common"

	delegationtypes "github.com/ExocoreNetwork/exocore/x/delegation/types"
	operatortypes "github.com/ExocoreNetwork/exocore/x/operator/types"

	"verif/sim"
)

// gatewayCall sends an arbitrary precompile call from the gateway as a recorded step.
func (w *World) gatewayCall(kind, pc string, to common.Address, method string, p map[string]string, args ...interface{}) *Step {
	st := w.newStep(kind, "evm")
	for k, v := range p {
		st.P[k] = v
	}
	st.P["method"] = method
	w.deliverPrecompile(st, w.gateway(), pc, to, method, args...)
	return w.finish(st)
}

// callFrom sends a precompile call from an arbitrary account (AVS precompile: the caller is the AVS).
func (w *World) CallFrom(kind string, from *sim.Account, pc string, to common.Address, method string, p map[string]string, args ...interface{}) *Step {
	st := w.newStep(kind, "evm")
	for k, v := range p {
		st.P[k] = v
	}
	st.P["method"], st.P["from"] = method, from.Name
	saved := w.Proxy
	w.Proxy = nil
	w.deliverPrecompile(st, from, pc, to, method, args...)
	w.Proxy = saved
	return w.finish(st)
}

// RegisterToken registers a new LST asset through the gateway (valid inputs).
func (w *World) RegisterToken(n int) *Step {
	a0 := w.Assets[0]
	addr := common.HexToAddress(fmt.Sprintf("0x%040x", 0x700000+n))
	// the optional fields of the oracle description: feeder interval (absent, explicit 0 = "use the default", empty,
	// explicit values that Params.Validate would accept), contract address, descriptions
	oinfo := fmt.Sprintf("NTK%d,Ethereum,8", n) + []string{",0", "", ",7", ",", ",30,0x00000000000000000000000000000000000000aa", ",0,,tokenDesc:{a new token}", ",300"}[(n/2)%7]
	if cfg := w.C.Gen.Cfg.Assets; n%2 == 0 && len(cfg) > 0 && cfg[0].HasOracle {
		// a second asset priced by a price token the oracle already knows (the first genesis asset's)
		oinfo = "TK0,Ethereum,8"
	}
	st := w.gatewayCall("register_token", "assets", sim.AddrAssets, "registerToken", map[string]string{"token": addr.String(), "oracle": oinfo},
		uint32(a0.Lz), pad32(addr.Bytes()), uint8(6), fmt.Sprintf("NewTok%d", n), "meta", oinfo)
	if st.Ack {
		id := strings.ToLower(addr.String()) + "_0x65"
		w.Assets = append(w.Assets, &Asset{ID: id, Lz: a0.Lz, Addr: addr.Bytes(), Decimals: 6})
	}
	return st
}

// InvalidOp issues one operation that is invalid in exactly one way, chosen by the PRNG, through the real entry
// point. Returns nil when the chosen case is not applicable in the current state.
func (w *World) InvalidOp() *Step {
	r := w.R
	l := w.Last.Ledger
	a0 := w.Assets[0]
	var lst []*Staker
	for _, s := range w.Stakers {
		if s.Acct == nil && s.Lz == a0.Lz {
			lst = append(lst, s)
		}
	}
	if len(lst) == 0 {
		return nil
	}
	s := lst[r.Intn(len(lst))]
	op := w.pickOper(true)
	one := big.NewInt(1)
	unknownAsset := pad32(common.HexToAddress("0x1111111111111111111111111111111111111111").Bytes())
	switch r.Intn(44) {
	case 0:
		return w.gatewayCall("inv_deposit", "assets", sim.AddrAssets, "depositLST", map[string]string{"why": "unknown-asset"}, uint32(a0.Lz), unknownAsset, pad32(s.Addr), big.NewInt(5))
	case 1:
		return w.gatewayCall("inv_deposit", "assets", sim.AddrAssets, "depositLST", map[string]string{"why": "unknown-chain"}, uint32(999), pad32(a0.Addr), pad32(s.Addr), big.NewInt(5))
	case 2:
		return w.gatewayCall("inv_deposit", "assets", sim.AddrAssets, "depositLST", map[string]string{"why": "short-staker-address"}, uint32(a0.Lz), pad32(a0.Addr), s.Addr[:10], big.NewInt(5))
	case 3:
		return w.gatewayCall("inv_deposit", "assets", sim.AddrAssets, "depositLST", map[string]string{"why": "zero-amount"}, uint32(a0.Lz), pad32(a0.Addr), pad32(s.Addr), big.NewInt(0))
	case 4:
		row := l.Staker[s.ID+"/"+a0.ID]
		amt := big.NewInt(1)
		if !row.WithdrawableAmount.IsNil() {
			amt = new(big.Int).Add(row.WithdrawableAmount.BigInt(), one)
		}
		return w.gatewayCall("inv_withdraw", "assets", sim.AddrAssets, "withdrawLST", map[string]string{"why": "more-than-withdrawable"}, uint32(a0.Lz), pad32(a0.Addr), pad32(s.Addr), amt)
	case 5:
		return w.gatewayCall("inv_withdraw", "assets", sim.AddrAssets, "withdrawLST", map[string]string{"why": "unknown-staker"}, uint32(a0.Lz), pad32(a0.Addr), pad32(common.HexToAddress("0x2222222222222222222222222222222222222222").Bytes()), big.NewInt(1))
	case 6:
		// NST withdrawal naming a validator the oracle does not know
		var nst *Asset
		for _, a := range w.Assets {
			if a.NST {
				nst = a
			}
		}
		if nst == nil {
			return nil
		}
		return w.gatewayCall("inv_withdraw_nst", "assets", sim.AddrAssets, "withdrawNST", map[string]string{"why": "unknown-validator-or-staker"}, uint32(nst.Lz), pad32([]byte{9, 9, 9}), pad32(s.Addr), big.NewInt(1))
	case 7:
		return w.gatewayCall("inv_client_chain", "assets", sim.AddrAssets, "registerOrUpdateClientChain", map[string]string{"why": "address-length-too-small"}, uint32(777), uint8(5), "chain", "meta", "sig")
	case 8:
		return w.gatewayCall("inv_client_chain", "assets", sim.AddrAssets, "registerOrUpdateClientChain", map[string]string{"why": "empty-name"}, uint32(777), uint8(20), "", "meta", "sig")
	case 9:
		return w.gatewayCall("inv_client_chain", "assets", sim.AddrAssets, "registerOrUpdateClientChain", map[string]string{"why": "name-too-long"}, uint32(777), uint8(20), strings.Repeat("n", 51), "meta", "sig")
	case 10:
		return w.gatewayCall("inv_register_token", "assets", sim.AddrAssets, "registerToken", map[string]string{"why": "already-registered"}, uint32(a0.Lz), pad32(a0.Addr), uint8(6), "Tether", "meta", "USDT,Ethereum,8")
	case 11:
		tok := pad32(common.HexToAddress(fmt.Sprintf("0x%040x", 0x3000+r.Intn(1000))).Bytes())
		return w.gatewayCall("inv_register_token", "assets", sim.AddrAssets, "registerToken", map[string]string{"why": "decimals-19"}, uint32(a0.Lz), tok, uint8(19), fmt.Sprintf("T%d", r.Intn(1000)), "meta", fmt.Sprintf("NEW%d,Ethereum,8", r.Intn(1000)))
	case 12:
		tok := pad32(common.HexToAddress(fmt.Sprintf("0x%040x", 0x4000+r.Intn(1000))).Bytes())
		return w.gatewayCall("inv_register_token", "assets", sim.AddrAssets, "registerToken", map[string]string{"why": "bad-oracle-info"}, uint32(a0.Lz), tok, uint8(6), "Tok", "meta", "onlyname")
	case 13:
		tok := pad32(common.HexToAddress(fmt.Sprintf("0x%040x", 0x5000+r.Intn(1000))).Bytes())
		return w.gatewayCall("inv_register_token", "assets", sim.AddrAssets, "registerToken", map[string]string{"why": "non-numeric-oracle-decimal"}, uint32(a0.Lz), tok, uint8(6), "Tok", "meta", "NAMEX,Ethereum,eight")
	case 14:
		return w.gatewayCall("inv_update_token", "assets", sim.AddrAssets, "updateToken", map[string]string{"why": "unknown-token"}, uint32(a0.Lz), unknownAsset, "meta")
	case 15:
		return w.gatewayCall("inv_update_token", "assets", sim.AddrAssets, "updateToken", map[string]string{"why": "meta-too-long"}, uint32(a0.Lz), pad32(a0.Addr), strings.Repeat("m", 201))
	case 16:
		w.LzNonce++
		return w.gatewayCall("inv_delegate", "delegation", sim.AddrDelegation, "delegate", map[string]string{"why": "unregistered-operator"}, uint32(a0.Lz), w.LzNonce, pad32(a0.Addr), pad32(s.Addr), []byte(sim.NewAccount("nobody").Acc.String()), big.NewInt(1))
	case 17:
		w.LzNonce++
		return w.gatewayCall("inv_delegate", "delegation", sim.AddrDelegation, "delegate", map[string]string{"why": "operator-not-bech32"}, uint32(a0.Lz), w.LzNonce, pad32(a0.Addr), pad32(s.Addr), []byte("not-an-address"), big.NewInt(1))
	case 18:
		row := l.Staker[s.ID+"/"+a0.ID]
		amt := big.NewInt(1)
		if !row.WithdrawableAmount.IsNil() {
			amt = new(big.Int).Add(row.WithdrawableAmount.BigInt(), one)
		}
		w.LzNonce++
		return w.gatewayCall("inv_delegate", "delegation", sim.AddrDelegation, "delegate", map[string]string{"why": "more-than-withdrawable"}, uint32(a0.Lz), w.LzNonce, pad32(a0.Addr), pad32(s.Addr), []byte(op.Addr()), amt)
	case 19:
		w.LzNonce++
		return w.gatewayCall("inv_delegate", "delegation", sim.AddrDelegation, "delegate", map[string]string{"why": "unknown-asset"}, uint32(a0.Lz), w.LzNonce, unknownAsset, pad32(s.Addr), []byte(op.Addr()), big.NewInt(1))
	case 20:
		pos := Position(l, s.ID, a0.ID, op.Addr())
		w.LzNonce++
		return w.gatewayCall("inv_undelegate", "delegation", sim.AddrDelegation, "undelegate", map[string]string{"why": "more-than-position"}, uint32(a0.Lz), w.LzNonce, pad32(a0.Addr), pad32(s.Addr), []byte(op.Addr()), new(big.Int).Add(pos.BigInt(), one))
	case 21:
		w.LzNonce++
		return w.gatewayCall("inv_undelegate", "delegation", sim.AddrDelegation, "undelegate", map[string]string{"why": "zero-amount"}, uint32(a0.Lz), w.LzNonce, pad32(a0.Addr), pad32(s.Addr), []byte(op.Addr()), big.NewInt(0))
	case 22:
		return w.gatewayCall("inv_associate", "delegation", sim.AddrDelegation, "associateOperatorWithStaker", map[string]string{"why": "unregistered-operator"}, uint32(s.Lz), pad32(s.Addr), []byte(sim.NewAccount("nobody").Acc.String()))
	case 23:
		return w.gatewayCall("inv_associate", "delegation", sim.AddrDelegation, "associateOperatorWithStaker", map[string]string{"why": "unknown-chain"}, uint32(999), pad32(s.Addr), []byte(op.Addr()))
	case 24:
		if l.Assoc[s.ID] == "" {
			return w.gatewayCall("inv_dissociate", "delegation", sim.AddrDelegation, "dissociateOperatorFromStaker", map[string]string{"why": "not-associated"}, uint32(s.Lz), pad32(s.Addr))
		}
		return w.gatewayCall("inv_associate", "delegation", sim.AddrDelegation, "associateOperatorWithStaker", map[string]string{"why": "already-associated"}, uint32(s.Lz), pad32(s.Addr), []byte(op.Addr()))
	case 25:
		return w.gatewayCall("inv_reward", "reward", sim.AddrReward, "claimReward", map[string]string{"why": "nothing-to-claim"}, uint32(a0.Lz), pad32(a0.Addr), pad32(s.Addr), big.NewInt(1))
	case 26, 27, 28, 29, 30:
		return w.invalidAVS(r.Intn(9))
	case 31:
		o := w.pickOper(true)
		w.fund(o.Acct)
		st := w.RegisterOperator(o) // already registered
		st.P["why"] = "already-registered"
		return st
	case 32:
		o := w.pickOper(true)
		w.fund(o.Acct)
		st := w.OptIn(o, "0x00000000000000000000000000000000000000aa", nil)
		st.P["why"] = "unknown-avs"
		return st
	case 33:
		o := w.pickOper(true)
		w.fund(o.Acct)
		st := w.OptIn(o, w.AVSAddr, nil)
		st.P["why"] = "chain-avs-without-key"
		return st
	case 34:
		o := w.pickOper(true)
		w.fund(o.Acct)
		st := w.newStep("optin", "cosmos")
		st.Oper = o
		st.P["operator"], st.P["avs"], st.P["why"] = o.Addr(), w.AVSAddr, "malformed-key-json"
		msg := &operatortypes.OptIntoAVSReq{FromAddress: o.Addr(), AvsAddress: w.AVSAddr, PublicKeyJSON: `{"@type":"/cosmos.crypto.ed25519.PubKey","key":"xx"}`}
		bz, err := w.C.CosmosTx(w.C.Ctx(), o.Acct, sim.CosmosTxOpts{}, msg)
		w.deliver(st, bz, err)
		return w.finish(st)
	case 35:
		o := w.pickOper(true)
		w.fund(o.Acct)
		st := w.OptOut(o, "0x00000000000000000000000000000000000000aa")
		st.P["why"] = "unknown-avs"
		return st
	case 36:
		// set a key that another operator uses
		o := w.pickOper(true)
		other := w.pickOper(true)
		if other == o || len(other.Keys) == 0 {
			return nil
		}
		w.fund(o.Acct)
		st := w.SetKey(o, w.AVSAddr, other.Keys[len(other.Keys)-1])
		st.P["why"] = "key-of-another-operator"
		return st
	case 37, 38:
		// native delegation: more than the balance / unknown operator
		ns := w.pickStaker(0, true)
		if ns == nil {
			return nil
		}
		bal := l.Bal[ns.Acct.Acc.String()]
		if r.Intn(2) == 0 {
			st := w.Delegate(ns, w.Native, op, bal.AddRaw(1))
			st.P["why"] = "more-than-balance"
			return st
		}
		ghost := &Oper{Acct: sim.NewAccount("ghost-operator")}
		st := w.Delegate(ns, w.Native, ghost, sdkmath.NewInt(5))
		st.P["why"] = "unknown-operator"
		return st
	case 39:
		ns := w.pickStaker(0, true)
		if ns == nil {
			return nil
		}
		pos := Position(l, ns.ID, w.Native.ID, op.Addr())
		st := w.Undelegate(ns, w.Native, op, pos.AddRaw(1))
		st.P["why"] = "more-than-position"
		return st
	case 40:
		// a two-operator native undelegation whose second leg is invalid: the first leg must leave no trace
		ns := w.pickStaker(0, true)
		if ns == nil {
			return nil
		}
		var good *Oper
		for _, o := range w.Opers {
			if Position(l, ns.ID, w.Native.ID, o.Addr()).IsPositive() {
				good = o
			}
		}
		if good == nil {
			return nil
		}
		ghost := &Oper{Acct: sim.NewAccount("ghost-operator")}
		st := w.NativeUndelegateMulti(ns, []*Oper{good, ghost}, []sdkmath.Int{sdkmath.OneInt(), sdkmath.OneInt()})
		st.P["why"] = "second-leg-unknown-operator"
		return st
	case 41:
		// same for delegation messages
		ns := w.pickStaker(0, true)
		if ns == nil {
			return nil
		}
		ghost := &Oper{Acct: sim.NewAccount("ghost-operator")}
		st := w.newStep("delegate", "cosmos")
		st.Staker, st.Asset, st.Oper, st.Amount = ns, w.Native, op, sdkmath.OneInt()
		st.P["staker"], st.P["why"] = ns.ID, "second-leg-unknown-operator"
		kvs := []delegationtypes.KeyValue{{Key: op.Addr(), Value: &delegationtypes.ValueField{Amount: sdkmath.OneInt()}}, {Key: ghost.Addr(), Value: &delegationtypes.ValueField{Amount: sdkmath.OneInt()}}}
		msg := &delegationtypes.MsgDelegation{AssetID: w.Native.ID, BaseInfo: &delegationtypes.DelegationIncOrDecInfo{FromAddress: ns.Acct.Acc.String(), PerOperatorAmounts: kvs}}
		bz, err := w.C.CosmosTx(w.C.Ctx(), ns.Acct, sim.CosmosTxOpts{}, msg)
		w.deliver(st, bz, err)
		return w.finish(st)
	case 42:
		st := w.NSTUpdateStep(&Staker{ID: "0x3333333333333333333333333333333333333333_0x65"}, w.Assets[len(w.Assets)-1], sdkmath.NewInt(-5))
		st.P["why"] = "unknown-staker"
		return st
	default:
		st := w.newStep("slash", "keeper")
		in := &operatortypes.SlashInputInfo{IsDogFood: true, Power: 10, SlashType: 1, Operator: sdk.AccAddress(sim.NewAccount("ghost-operator").Acc), AVSAddr: w.AVSAddr, SlashID: "0x9_0x9", SlashEventHeight: w.C.Height() + 5, SlashProportion: sdkmath.LegacyNewDecWithPrec(1, 1)}
		st.Extra = in
		st.P["why"] = "infraction-in-the-future"
		w.keeperStep(st, func(ctx sdk.Context) error { return w.C.App.OperatorKeeper.Slash(ctx, in) })
		return w.finish(st)
	}
}

func (w *World) invalidAVS(which int) *Step {
	cfg := w.C.Gen.Cfg
	owner := cfg.Accounts[len(cfg.Accounts)-1]
	other := cfg.Accounts[len(cfg.Accounts)-2]
	base := []interface{}{owner.Eth, "avsx", uint64(1), sim.NewAccount("taskx").Eth, common.HexToAddress("0x0000000000000000000000000000000000000902"), common.HexToAddress("0x0000000000000000000000000000000000000903"),
		[]string{owner.Acc.String()}, []string{w.Assets[0].ID}, uint64(2), uint64(0), "minute", []uint64{1, 1, 5, 5}}
	switch which {
	case 0:
		args := append([]interface{}{}, base...)
		args[7] = []string{"0x1111111111111111111111111111111111111111_0x65"}
		return w.CallFrom("inv_avs", owner, "avs", sim.AddrAVS, "registerAVS", map[string]string{"why": "unknown-asset"}, args...)
	case 1:
		args := append([]interface{}{}, base...)
		args[10] = "fortnight"
		return w.CallFrom("inv_avs", owner, "avs", sim.AddrAVS, "registerAVS", map[string]string{"why": "unknown-epoch-identifier"}, args...)
	case 2:
		return w.CallFrom("inv_avs", other, "avs", sim.AddrAVS, "deregisterAVS", map[string]string{"why": "not-registered-or-not-owner"}, other.Eth, "avsx")
	case 3:
		args := append([]interface{}{}, base...)
		args[0] = other.Eth
		return w.CallFrom("inv_avs", other, "avs", sim.AddrAVS, "updateAVS", map[string]string{"why": "not-registered"}, args...)
	case 4:
		return w.CallFrom("inv_avs", other, "avs", sim.AddrAVS, "createTask", map[string]string{"why": "caller-is-no-avs"}, other.Eth, "task", []byte("hash"), uint64(1), uint64(1), uint64(50), uint64(1))
	case 5:
		return w.CallFrom("inv_avs", other, "avs", sim.AddrAVS, "registerOperatorToAVS", map[string]string{"why": "caller-is-no-avs"}, w.Opers[0].Acct.Eth)
	case 6, 7:
		// a registered AVS whose owner calls from its task contract, but which has no voting power yet (registered in
		// this very epoch): the call passes the caller checks and is refused by a later one
		fresh := sim.NewAccount(fmt.Sprintf("avs-fresh-%d-%d", w.C.Height(), len(w.Steps)))
		w.fund(fresh)
		args := append([]interface{}{}, base...)
		args[0], args[1], args[3], args[6] = fresh.Eth, "avsfresh", fresh.Eth, []string{fresh.Acc.String()}
		if !w.CallFrom("avs_register_fresh", fresh, "avs", sim.AddrAVS, "registerAVS", map[string]string{}, args...).Ack {
			return nil
		}
		return w.CallFrom("inv_avs", fresh, "avs", sim.AddrAVS, "createTask", map[string]string{"why": "avs-without-voting-power"}, fresh.Eth, "task", []byte("hash"), uint64(1), uint64(1), uint64(50), uint64(1))
	default:
		return w.CallFrom("inv_avs", other, "avs", sim.AddrAVS, "registerBLSPublicKey", map[string]string{"why": "garbage-key"}, other.Eth, "name", []byte{1, 2, 3}, []byte{4, 5, 6}, []byte{7, 8, 9})
	}
}
