// Package ops executes restaking operations against a sim.Chain through the real entry points
// (signed Ethereum txs to the precompiles from the configured gateway EOA, signed Cosmos messages,
// and - for the entry points no transaction reaches - keeper steps on the deliver-state context),
// records each as a Step with before/after snapshots, and feeds the steps to monitors.
package ops

import (
	"fmt"
	"math/big"
	"math/rand"
	"os"
	"strings"
	"time"

	sdkmath "cosmossdk.io/math"
	abci "github.com/cometbft/cometbft/abci/types"
	sdk "github.com/cosmos/cosmos-sdk/types"
	stakingtypes "github.com/cosmos/cosmos-sdk/x/staking/types"
	"github.com/ethereum/go-ethereum/common"
	"github.com/ethereum/go-ethereum/crypto"

	assetstypes "github.com/ExocoreNetwork/exocore/x/assets/types"
	delegationtypes "github.com/ExocoreNetwork/exocore/x/delegation/types"
	operatortypes "github.com/ExocoreNetwork/exocore/x/operator/types"
	oracletypes "github.com/ExocoreNetwork/exocore/x/oracle/types"

	"verif/sim"
)

// Staker is a client-chain address (or an Exocore account for the native token).
type Staker struct {
	Lz   uint64
	Addr []byte
	ID   string
	Acct *sim.Account // non-nil for native-token stakers
}

// Oper is an operator known to the workload.
type Oper struct {
	Acct       *sim.Account
	Keys       []*sim.ConsKey // keys it ever used (latest last)
	Registered bool
	NextKey    int
}

func (o *Oper) Addr() string { return o.Acct.Acc.String() }

// Asset is a restaking asset.
type Asset struct {
	ID       string
	Lz       uint64
	Addr     []byte // client chain address bytes
	Decimals uint32
	NST      bool
	Native   bool
}

// Step is one executed operation (a tx, a keeper step, or a block phase).
type Step struct {
	I      int               `json:"i"`
	Kind   string            `json:"kind"`
	Height int64             `json:"height"`
	P      map[string]string `json:"p,omitempty"`
	Ack    bool              `json:"ack"`  // the operation reported success
	Fail   bool              `json:"fail"` // the operation reported failure
	Err    string            `json:"err,omitempty"`
	Panic  string            `json:"panic,omitempty"`
	Via    string            `json:"via,omitempty"` // evm / cosmos / keeper / block

	// typed fields for monitors (not serialised)
	Staker   *Staker                 `json:"-"`
	Oper     *Oper                   `json:"-"`
	Asset    *Asset                  `json:"-"`
	Amount   sdkmath.Int             `json:"-"`
	Pre      *sim.Snap               `json:"-"`
	Post     *sim.Snap               `json:"-"`
	Extra    interface{}             `json:"-"`
	EndBlock *abci.ResponseEndBlock  `json:"-"`
	TxRes    *abci.ResponseDeliverTx `json:"-"`
	TxBytes  []byte                  `json:"-"`
	Eth      *sim.EthResult          `json:"-"`
}

// Monitor observes steps.
type Monitor interface {
	OnStep(w *World, st *Step)
}

// World is a chain plus the workload's knowledge of the actors.
type World struct {
	C        *sim.Chain
	R        *rand.Rand
	Stakers  []*Staker
	Opers    []*Oper
	Assets   []*Asset
	Native   *Asset
	// NativeStaking: the chain's own token was registered as a staking asset of the dogfood AVS in this history
	NativeStaking bool
	LzNonce  uint64
	Steps    []*Step
	Monitors []Monitor
	Last     *sim.Snap
	Dt       time.Duration
	// KeepSnaps: keep Pre/Post on recorded steps (memory heavy); default false => dropped after monitors ran.
	KeepSnaps     bool
	Dead          bool   // a panic escaped BeginBlock/EndBlock/Commit
	seq           int    // running number of this world in the process (trace)
	lastSlashed   *Oper  // target of the last generated slash
	ConsensusHalt string // CometBFT-side validation refused a validator update list
	MonitorPanics []string
	// IgnoreValSetErr: keep driving the application after the consensus-side model refused an update list
	// (used by workloads that deliberately reach zero total power)
	IgnoreValSetErr bool
	// Proxy: when set, gateway operations are sent to this proxy contract (which is the configured gateway) and
	// ProxyMode selects what it does after forwarding the call (0 return, 1 revert, 2 burn gas, 3 write storage)
	Proxy     *common.Address
	ProxyMode byte
	AVSAddr   string
}

func NewWorld(c *sim.Chain, r *rand.Rand) *World {
	traceInit()
	worldSeq++
	w := &World{C: c, R: r, Dt: 20 * time.Second, AVSAddr: c.Gen.AVSAddr, seq: worldSeq}
	for _, a := range c.Gen.Cfg.Assets {
		w.Assets = append(w.Assets, &Asset{ID: a.ID(), Lz: a.LzChainID, Addr: common.HexToAddress(a.Address).Bytes(), Decimals: a.Decimals, NST: a.NST})
	}
	w.Native = &Asset{ID: assetstypes.ExocoreAssetID, Lz: 0, Addr: common.Address{}.Bytes(), Decimals: 18, Native: true}
	for _, o := range c.Gen.Cfg.Operators {
		op := &Oper{Acct: o.Acct, Registered: true}
		if o.Cons != nil {
			op.Keys = append(op.Keys, o.Cons)
			op.NextKey = 1
		}
		w.Opers = append(w.Opers, op)
		if o.SelfStake > 0 {
			w.Stakers = append(w.Stakers, &Staker{Lz: c.Gen.Cfg.Assets[0].LzChainID, Addr: o.Acct.Eth.Bytes(), ID: sim.StakerID(c.Gen.Cfg.Assets[0].LzChainID, o.Acct.Eth.Bytes())})
		}
	}
	return w
}

func (w *World) AddStaker(lz uint64, addr []byte) *Staker {
	s := &Staker{Lz: lz, Addr: addr, ID: sim.StakerID(lz, addr)}
	w.Stakers = append(w.Stakers, s)
	return s
}

func (w *World) AddNativeStaker(a *sim.Account) *Staker {
	s := &Staker{Lz: 0, Addr: a.Acc.Bytes(), ID: sim.StakerID(0, a.Acc.Bytes()), Acct: a}
	w.Stakers = append(w.Stakers, s)
	return s
}

func (w *World) AssetByID(id string) *Asset {
	for _, a := range w.Assets {
		if a.ID == id {
			return a
		}
	}
	if id == w.Native.ID {
		return w.Native
	}
	return nil
}

func (w *World) OperByAddr(addr string) *Oper {
	for _, o := range w.Opers {
		if o.Addr() == addr {
			return o
		}
	}
	return nil
}

// Start begins the first block and takes the initial snapshot.
func (w *World) Start() bool {
	if !w.C.BeginBlock(w.Dt) {
		w.Dead = true
		return false
	}
	w.Last = w.C.Snapshot()
	return true
}

func (w *World) newStep(kind, via string) *Step {
	return &Step{I: len(w.Steps), Kind: kind, Via: via, Height: w.C.Height(), P: map[string]string{}, Pre: w.Last}
}

func (w *World) finish(st *Step) *Step {
	npan := len(w.C.Panics)
	_ = npan
	st.Post = w.C.Snapshot()
	w.Last = st.Post
	w.Steps = append(w.Steps, st)
	w.trace(st)
	w.runMonitors(st)
	if !w.KeepSnaps {
		st.Pre, st.Post = nil, nil
	}
	return st
}

// runMonitors calls every monitor; a panic inside a monitor is recorded (the run is then inconclusive), it
// must not take the other monitors down.
func (w *World) runMonitors(st *Step) {
	for _, m := range w.Monitors {
		func() {
			defer func() {
				if r := recover(); r != nil {
					w.MonitorPanics = append(w.MonitorPanics, fmt.Sprintf("%T at step %d (%s): %v", m, st.I, st.Kind, r))
				}
			}()
			m.OnStep(w, st)
		}()
	}
}

func (w *World) deliver(st *Step, bz []byte, err error) {
	if err != nil {
		st.Fail = true
		st.Err = "build: " + err.Error()
		return
	}
	st.TxBytes = bz
	n := len(w.C.Panics)
	res, ok := w.C.DeliverTx(bz)
	if !ok {
		st.Panic = w.C.Panics[n].Value
		st.Fail = true
		return
	}
	st.TxRes = &res
	if res.Code != 0 {
		st.Fail = true
		st.Err = fmt.Sprintf("code %d/%s: %s", res.Code, res.Codespace, trunc(res.Log, 300))
		if os.Getenv("VERIF_DEBUG_PANIC") != "" && strings.Contains(res.Log, "recovered") {
			fmt.Println("PANIC-LOG:", trunc(res.Log, 3000))
		}
		return
	}
	st.Ack = true
}

func trunc(s string, n int) string {
	if len(s) > n {
		return s[:n]
	}
	return s
}

// deliverPrecompile delivers a gateway tx and decodes the success flag.
func (w *World) deliverPrecompile(st *Step, from *sim.Account, pc string, to common.Address, method string, args ...interface{}) {
	ctx := w.C.Ctx()
	var bz []byte
	var err error
	if w.Proxy != nil && (pc == "assets" || pc == "delegation" || pc == "reward") {
		var data []byte
		data, err = sim.ABI(pc).Pack(method, args...)
		if err == nil {
			st.P["proxy_mode"] = fmt.Sprint(w.ProxyMode)
			bz, _, err = w.C.EthTx(ctx, sim.EthTxArgs{From: from, To: w.Proxy, Data: w.proxyData(to, w.ProxyMode, data), GasLimit: 2_000_000})
		}
	} else {
		bz, err = w.C.PrecompileTx(ctx, from, pc, to, method, args...)
	}
	if err != nil {
		st.Fail = true
		st.Err = "build: " + err.Error()
		return
	}
	st.TxBytes = bz
	n := len(w.C.Panics)
	res, ok := w.C.DeliverTx(bz)
	if !ok {
		st.Panic = w.C.Panics[n].Value
		st.Fail = true
		return
	}
	st.TxRes = &res
	er := sim.DecodeEthResult(res)
	st.Eth = &er
	if er.Failed {
		st.Fail = true
		st.Err = fmt.Sprintf("code %d vmerr %q log %s", er.Code, er.VmError, trunc(er.Log, 200))
		return
	}
	if sim.PrecompileSuccess(pc, method, er) {
		st.Ack = true
	} else {
		st.Fail = true
		st.Err = "precompile returned false"
	}
}

func pad32(b []byte) []byte {
	out := make([]byte, 32)
	copy(out, b)
	return out
}

func (w *World) gateway() *sim.Account { return w.C.Gen.Cfg.Gateway }

// Deposit / Withdraw through the assets precompile.
func (w *World) Deposit(s *Staker, a *Asset, amt sdkmath.Int) *Step {
	return w.depositWithdraw("deposit", s, a, amt)
}

func (w *World) Withdraw(s *Staker, a *Asset, amt sdkmath.Int) *Step {
	return w.depositWithdraw("withdraw", s, a, amt)
}

func (w *World) depositWithdraw(kind string, s *Staker, a *Asset, amt sdkmath.Int) *Step {
	st := w.newStep(kind, "evm")
	st.Staker, st.Asset, st.Amount = s, a, amt
	st.P["staker"], st.P["asset"], st.P["amount"] = s.ID, a.ID, amt.String()
	method := map[string]string{"deposit": "depositLST", "withdraw": "withdrawLST"}[kind]
	second := pad32(a.Addr)
	if a.NST {
		method = map[string]string{"deposit": "depositNST", "withdraw": "withdrawNST"}[kind]
		second = pad32([]byte{0x01, 0x02, 0x03, 0x04}) // validator pubkey placeholder (index-like)
	}
	w.deliverPrecompile(st, w.gateway(), "assets", sim.AddrAssets, method, uint32(a.Lz), second, pad32(s.Addr), amt.BigInt())
	return w.finish(st)
}

// Delegate / Undelegate: LST/NST through the delegation precompile, native token through Cosmos messages.
func (w *World) Delegate(s *Staker, a *Asset, o *Oper, amt sdkmath.Int) *Step {
	return w.delegation("delegate", s, a, o, amt, 0)
}

func (w *World) Undelegate(s *Staker, a *Asset, o *Oper, amt sdkmath.Int) *Step {
	return w.delegation("undelegate", s, a, o, amt, 0)
}

// UndelegateWithNonce lets the caller choose the lz nonce (collisions on purpose).
func (w *World) UndelegateWithNonce(s *Staker, a *Asset, o *Oper, amt sdkmath.Int, nonce uint64) *Step {
	return w.delegation("undelegate", s, a, o, amt, nonce)
}

func (w *World) delegation(kind string, s *Staker, a *Asset, o *Oper, amt sdkmath.Int, nonce uint64) *Step {
	if a.Native {
		return w.nativeDelegation(kind, s, []*Oper{o}, []sdkmath.Int{amt})
	}
	st := w.newStep(kind, "evm")
	st.Staker, st.Asset, st.Oper, st.Amount = s, a, o, amt
	if nonce == 0 {
		w.LzNonce++
		nonce = w.LzNonce
	}
	st.P["staker"], st.P["asset"], st.P["operator"], st.P["amount"], st.P["nonce"] = s.ID, a.ID, o.Addr(), amt.String(), fmt.Sprint(nonce)
	w.deliverPrecompile(st, w.gateway(), "delegation", sim.AddrDelegation, kind, uint32(a.Lz), nonce, pad32(a.Addr), pad32(s.Addr), []byte(o.Addr()), amt.BigInt())
	return w.finish(st)
}

// NativeDelegation sends MsgDelegation / MsgUndelegation for the native token with one or more operators.
func (w *World) NativeUndelegateMulti(s *Staker, os []*Oper, amts []sdkmath.Int) *Step {
	return w.nativeDelegation("undelegate", s, os, amts)
}

func (w *World) nativeDelegation(kind string, s *Staker, os []*Oper, amts []sdkmath.Int) *Step {
	st := w.newStep(kind, "cosmos")
	st.Staker, st.Asset, st.Oper, st.Amount = s, w.Native, os[0], amts[0]
	st.P["staker"], st.P["asset"] = s.ID, w.Native.ID
	var kvs []delegationtypes.KeyValue
	for i, o := range os {
		kvs = append(kvs, delegationtypes.KeyValue{Key: o.Addr(), Value: &delegationtypes.ValueField{Amount: amts[i]}})
		st.P[fmt.Sprintf("operator%d", i)] = o.Addr()
		st.P[fmt.Sprintf("amount%d", i)] = amts[i].String()
	}
	st.Extra = kvs
	base := &delegationtypes.DelegationIncOrDecInfo{FromAddress: s.Acct.Acc.String(), PerOperatorAmounts: kvs}
	var msg sdk.Msg
	if kind == "delegate" {
		msg = &delegationtypes.MsgDelegation{AssetID: w.Native.ID, BaseInfo: base}
	} else {
		msg = &delegationtypes.MsgUndelegation{AssetID: w.Native.ID, BaseInfo: base}
	}
	bz, err := w.C.CosmosTx(w.C.Ctx(), s.Acct, sim.CosmosTxOpts{}, msg)
	w.deliver(st, bz, err)
	return w.finish(st)
}

func (w *World) Associate(s *Staker, o *Oper) *Step {
	st := w.newStep("associate", "evm")
	st.Staker, st.Oper = s, o
	st.P["staker"], st.P["operator"] = s.ID, o.Addr()
	w.deliverPrecompile(st, w.gateway(), "delegation", sim.AddrDelegation, "associateOperatorWithStaker", uint32(s.Lz), pad32(s.Addr), []byte(o.Addr()))
	return w.finish(st)
}

func (w *World) Dissociate(s *Staker) *Step {
	st := w.newStep("dissociate", "evm")
	st.Staker = s
	st.P["staker"] = s.ID
	w.deliverPrecompile(st, w.gateway(), "delegation", sim.AddrDelegation, "dissociateOperatorFromStaker", uint32(s.Lz), pad32(s.Addr))
	return w.finish(st)
}

// Operator lifecycle (Cosmos messages signed by the operator).
func (w *World) RegisterOperator(o *Oper) *Step {
	st := w.newStep("register_operator", "cosmos")
	st.Oper = o
	st.P["operator"] = o.Addr()
	msg := &operatortypes.RegisterOperatorReq{FromAddress: o.Addr(), Info: &operatortypes.OperatorInfo{
		EarningsAddr: o.Addr(), ApproveAddr: o.Addr(), OperatorMetaInfo: o.Acct.Name,
		Commission: stakingCommission(),
	}}
	bz, err := w.C.CosmosTx(w.C.Ctx(), o.Acct, sim.CosmosTxOpts{}, msg)
	w.deliver(st, bz, err)
	if st.Ack {
		o.Registered = true
	}
	return w.finish(st)
}

func (w *World) OptIn(o *Oper, avs string, key *sim.ConsKey) *Step {
	st := w.newStep("optin", "cosmos")
	st.Oper = o
	st.P["operator"], st.P["avs"] = o.Addr(), avs
	msg := &operatortypes.OptIntoAVSReq{FromAddress: o.Addr(), AvsAddress: avs}
	if key != nil {
		msg.PublicKeyJSON = key.W.ToJSON()
		st.P["key"] = key.Name
		st.Extra = key
	}
	bz, err := w.C.CosmosTx(w.C.Ctx(), o.Acct, sim.CosmosTxOpts{}, msg)
	w.deliver(st, bz, err)
	if st.Ack && key != nil {
		o.Keys = append(o.Keys, key)
	}
	return w.finish(st)
}

func (w *World) OptOut(o *Oper, avs string) *Step {
	st := w.newStep("optout", "cosmos")
	st.Oper = o
	st.P["operator"], st.P["avs"] = o.Addr(), avs
	msg := &operatortypes.OptOutOfAVSReq{FromAddress: o.Addr(), AvsAddress: avs}
	bz, err := w.C.CosmosTx(w.C.Ctx(), o.Acct, sim.CosmosTxOpts{}, msg)
	w.deliver(st, bz, err)
	return w.finish(st)
}

func (w *World) SetKey(o *Oper, avs string, key *sim.ConsKey) *Step {
	st := w.newStep("setkey", "cosmos")
	st.Oper = o
	st.P["operator"], st.P["avs"], st.P["key"] = o.Addr(), avs, key.Name
	st.Extra = key
	msg := &operatortypes.SetConsKeyReq{Address: o.Addr(), AvsAddress: avs, PublicKeyJSON: key.W.ToJSON()}
	bz, err := w.C.CosmosTx(w.C.Ctx(), o.Acct, sim.CosmosTxOpts{}, msg)
	w.deliver(st, bz, err)
	if st.Ack {
		o.Keys = append(o.Keys, key)
	}
	return w.finish(st)
}

// SlashStep calls OperatorKeeper.Slash on the deliver-state context.
func (w *World) SlashStep(in *operatortypes.SlashInputInfo) *Step {
	st := w.newStep("slash", "keeper")
	st.Oper = w.OperByAddr(in.Operator.String())
	st.Extra = in
	st.P["operator"], st.P["avs"], st.P["id"], st.P["power"], st.P["prop"], st.P["evh"] = in.Operator.String(), in.AVSAddr, in.SlashID, fmt.Sprint(in.Power), decStr(in.SlashProportion), fmt.Sprint(in.SlashEventHeight)
	w.keeperStep(st, func(ctx sdk.Context) error { return w.C.App.OperatorKeeper.Slash(ctx, in) })
	return w.finish(st)
}

func decStr(d sdkmath.LegacyDec) string {
	if d.IsNil() {
		return "<nil>"
	}
	return d.String()
}

// NSTUpdateStep calls DelegationKeeper.UpdateNSTBalance on the deliver-state context.
func (w *World) NSTUpdateStep(s *Staker, a *Asset, delta sdkmath.Int) *Step {
	st := w.newStep("nst_update", "keeper")
	st.Staker, st.Asset, st.Amount = s, a, delta
	st.P["staker"], st.P["asset"], st.P["amount"] = s.ID, a.ID, delta.String()
	w.keeperStep(st, func(ctx sdk.Context) error {
		return w.C.App.DelegationKeeper.UpdateNSTBalance(ctx, s.ID, a.ID, delta)
	})
	return w.finish(st)
}

func (w *World) keeperStep(st *Step, f func(ctx sdk.Context) error) {
	defer func() {
		if r := recover(); r != nil {
			st.Panic = fmt.Sprint(r)
			st.Fail = true
		}
	}()
	if err := f(w.C.Ctx()); err != nil {
		st.Fail = true
		st.Err = trunc(err.Error(), 300)
		return
	}
	st.Ack = true
}

// EndBlock step.
func (w *World) EndBlock() *Step {
	w.phantomQueries()
	st := w.newStep("end_block", "block")
	n := len(w.C.Panics)
	res, ok := w.C.EndBlock()
	if !ok {
		st.Panic = w.C.Panics[n].Value
		w.Dead = true
		w.Steps = append(w.Steps, st)
		w.trace(st)
		w.runMonitors(st)
		return st
	}
	st.EndBlock = &res
	st.Ack = true
	return w.finish(st)
}

// NextBlock = Commit + BeginBlock(dt) as one step.
func (w *World) NextBlock(dt time.Duration) *Step {
	st := w.newStep("begin_block", "block")
	n := len(w.C.Panics)
	ok := w.C.Commit()
	if ok && restartEach > 0 && w.C.Height()%restartEach == 0 {
		// replica variant of C08: the node is stopped after this committed block and started again
		if err := w.C.Restart(); err != nil {
			ok = false
			w.C.Panics = append(w.C.Panics, sim.PanicInfo{Phase: "Restart", Value: err.Error()})
		}
	}
	if ok {
		ok = w.C.BeginBlock(dt)
	}
	st.Height = w.C.Height()
	st.P["dt"] = dt.String()
	if !ok {
		if len(w.C.Panics) > n {
			st.Panic = w.C.Panics[n].Value
		}
		w.Dead = true
		w.Steps = append(w.Steps, st)
		w.trace(st)
		w.runMonitors(st)
		return st
	}
	st.Ack = true
	return w.finish(st)
}

// Advance ends the block and starts the next.
func (w *World) Advance(dt time.Duration) bool {
	if w.Dead {
		return false
	}
	w.EndBlock()
	if w.Dead {
		return false
	}
	w.NextBlock(dt)
	if w.C.ValSetErr != nil && !w.IgnoreValSetErr {
		// CometBFT would refuse this update list (consensus failure); the history ends here and the
		// engines report it (C06 judges it).
		w.Dead = true
		w.ConsensusHalt = w.C.ValSetErr.Error()
	}
	return !w.Dead
}

// Position returns floor(share*TA/TS) for staker in (operator, asset) from a ledger.
func Position(l *sim.Ledger, stakerID, assetID, operator string) sdkmath.Int {
	d, ok := l.Delegation[stakerID+"/"+assetID+"/"+operator]
	if !ok || d.UndelegatableShare.IsNil() || !d.UndelegatableShare.IsPositive() {
		return sdkmath.ZeroInt()
	}
	p, ok := l.Operator[operator+"/"+assetID]
	if !ok || p.TotalShare.IsNil() || !p.TotalShare.IsPositive() {
		return sdkmath.ZeroInt()
	}
	num := new(big.Int).Mul(d.UndelegatableShare.BigInt(), p.TotalAmount.BigInt())
	return sdkmath.NewIntFromBigInt(num.Quo(num, p.TotalShare.BigInt()))
}

// StakingCommission is the commission every run-time operator registers with.
func StakingCommission() stakingtypes.Commission { return stakingCommission() }

func stakingCommission() stakingtypes.Commission {
	return stakingtypes.NewCommission(sdk.ZeroDec(), sdk.OneDec(), sdk.OneDec())
}

// AVSSpec describes an AVS registered through the precompile by an EOA acting as the AVS contract.
type AVSSpec struct {
	Owner     *sim.Account // the EOA that is the AVS address and its owner
	Name      string
	Assets    []string
	MinSelf   uint64
	EpochID   string
	Unbonding uint64
	TaskAddr  common.Address
}

// RegisterAVS registers an AVS through the AVS precompile; the AVS address is the caller (an EOA here).
func (w *World) RegisterAVS(a AVSSpec) *Step {
	st := w.newStep("register_avs", "evm")
	st.P["avs"], st.P["epoch"], st.P["minself"] = a.Owner.Eth.String(), a.EpochID, fmt.Sprint(a.MinSelf)
	st.Extra = a
	ctx := w.C.Ctx()
	bz, err := w.C.PrecompileTx(ctx, a.Owner, "avs", sim.AddrAVS, "registerAVS",
		a.Owner.Eth, a.Name, uint64(1), a.TaskAddr, common.HexToAddress("0x0000000000000000000000000000000000000902"), common.HexToAddress("0x0000000000000000000000000000000000000903"),
		[]string{a.Owner.Acc.String()}, a.Assets, a.Unbonding, a.MinSelf, a.EpochID, []uint64{1, 1, 5, 5})
	if err != nil {
		st.Fail, st.Err = true, "build: "+err.Error()
		return w.finish(st)
	}
	n := len(w.C.Panics)
	res, ok := w.C.DeliverTx(bz)
	if !ok {
		st.Panic, st.Fail = w.C.Panics[n].Value, true
		return w.finish(st)
	}
	st.TxRes = &res
	er := sim.DecodeEthResult(res)
	st.Eth = &er
	if er.Failed || !sim.PrecompileSuccess("avs", "registerAVS", er) {
		st.Fail = true
		st.Err = fmt.Sprintf("code %d vmerr %q ret %x log %s", er.Code, er.VmError, er.Ret, trunc(er.Log, 200))
	} else {
		st.Ack = true
	}
	return w.finish(st)
}

// PriceStep appends a new price round for a token directly through the oracle keeper (the write a
// finalised oracle round performs).
func (w *World) PriceStep(tokenID uint64, price string, decimal int32) *Step {
	st := w.newStep("price", "keeper")
	st.P["token"], st.P["price"], st.P["decimal"] = fmt.Sprint(tokenID), price, fmt.Sprint(decimal)
	w.keeperStep(st, func(ctx sdk.Context) error {
		next := w.C.App.OracleKeeper.GetNextRoundID(ctx, tokenID)
		if !w.C.App.OracleKeeper.AppendPriceTR(ctx, tokenID, oracletypes.PriceTimeRound{Price: price, Decimal: decimal, Timestamp: "", RoundID: next}) {
			return fmt.Errorf("AppendPriceTR refused")
		}
		return nil
	})
	return w.finish(st)
}

// GovStep executes msg the way x/gov executes the messages of a passed proposal: through the message
// service router on a cache of the block context, written only on success.
func (w *World) GovStep(kind string, msg sdk.Msg) *Step {
	st := w.newStep(kind, "gov")
	st.Extra = msg
	w.keeperStep(st, func(ctx sdk.Context) error {
		h := w.C.App.MsgServiceRouter().Handler(msg)
		if h == nil {
			return fmt.Errorf("no handler for %T", msg)
		}
		cc, write := ctx.CacheContext()
		if _, err := h(cc, msg); err != nil {
			return err
		}
		write()
		return nil
	})
	return w.finish(st)
}

// RawTxStep delivers arbitrary transaction bytes as a recorded step.
func (w *World) RawTxStep(kind string, bz []byte, p map[string]string, extra interface{}) *Step {
	st := w.newStep(kind, "cosmos")
	for k, v := range p {
		st.P[k] = v
	}
	st.Extra = extra
	w.deliver(st, bz, nil)
	return w.finish(st)
}

// CheckTxStep runs CheckTx (or ReCheckTx) on the bytes as a recorded step; snapshots are of the deliver state
// (which CheckTx must not touch) - monitors needing the check state read it themselves.
func (w *World) CheckTxStep(kind string, bz []byte, recheck bool, p map[string]string, extra interface{}) *Step {
	st := w.newStep(kind, "checktx")
	for k, v := range p {
		st.P[k] = v
	}
	st.Extra = extra
	n := len(w.C.Panics)
	res, ok := w.C.CheckTx(bz, recheck)
	if !ok {
		st.Panic, st.Fail = w.C.Panics[n].Value, true
	} else if res.Code != 0 {
		st.Fail = true
		st.Err = fmt.Sprintf("code %d/%s: %s", res.Code, res.Codespace, trunc(res.Log, 200))
	} else {
		st.Ack = true
	}
	return w.finish(st)
}

// DeployContract sends a contract-creation transaction with the given init code.
func (w *World) DeployContract(from *sim.Account, initCode []byte) (common.Address, *Step) {
	st := w.newStep("deploy", "evm")
	ctx := w.C.Ctx()
	nonce := w.C.App.EvmKeeper.GetNonce(ctx, from.Eth)
	addr := crypto.CreateAddress(from.Eth, nonce)
	st.P["address"] = addr.String()
	bz, _, err := w.C.EthTx(ctx, sim.EthTxArgs{From: from, To: nil, Data: initCode, GasLimit: 1_000_000})
	if err != nil {
		st.Fail, st.Err = true, "build: "+err.Error()
		return addr, w.finish(st)
	}
	st.TxBytes = bz
	n := len(w.C.Panics)
	res, ok := w.C.DeliverTx(bz)
	if !ok {
		st.Panic, st.Fail = w.C.Panics[n].Value, true
		return addr, w.finish(st)
	}
	st.TxRes = &res
	er := sim.DecodeEthResult(res)
	st.Eth = &er
	if er.Failed {
		st.Fail = true
		st.Err = fmt.Sprintf("code %d vmerr %q log %s", er.Code, er.VmError, trunc(er.Log, 200))
	} else {
		st.Ack = true
	}
	return addr, w.finish(st)
}

// UseProxyGateway deploys the proxy contract and makes it the configured gateway: every precompile operation of
// the workload is then a call of the proxy (mode: 0 forward, 1 revert afterwards, 2 burn all gas afterwards).
func (w *World) UseProxyGateway(runtime []byte, deployInit []byte) bool {
	addr, st := w.DeployContract(w.gateway(), deployInit)
	if !st.Ack {
		return false
	}
	ctx := w.C.Ctx()
	p, err := w.C.App.AssetsKeeper.GetParams(ctx)
	if err != nil {
		return false
	}
	p.ExocoreLzAppAddress = addr.String()
	if err := w.C.App.AssetsKeeper.SetParams(ctx, p); err != nil {
		return false
	}
	w.Proxy = &addr
	w.Last = w.C.Snapshot()
	return true
}

func (w *World) proxyData(target common.Address, mode byte, payload []byte) []byte {
	out := append([]byte{}, target.Bytes()...)
	out = append(out, mode)
	return append(out, payload...)
}
