package ops

import (
	"bufio"
	"strings"

	oraclekeeper "github.com/ExocoreNetwork/exocore/x/oracle/keeper"

	"crypto/sha256"
	"encoding/hex"
	"fmt"
	"os"
	"sort"
	"strconv"
	"sync"
)

// Execution trace for the replica comparison of C08: with VERIF_TRACE=<file> every recorded step of every world of
// this process appends one line "<world> <step> <kind> <input digest> <output digest> <memory digest>".
//   - input  = what the harness fed to the application (step kind, route, parameters, transaction bytes)
//   - output = what the application answered (acknowledgement, error text, code / gas / data of the transaction result,
//     validator and consensus-parameter updates, digest of all monitored stores after the step, application hash)
//   - memory = digest of the oracle's in-memory dump (recorded, not judged)
var (
	traceOnce   sync.Once
	traceW      *bufio.Writer
	traceF      *os.File
	worldSeq    int
	restartEach int64
)

func traceInit() {
	traceOnce.Do(func() {
		if p := os.Getenv("VERIF_TRACE"); p != "" {
			f, err := os.Create(p)
			if err == nil {
				traceF, traceW = f, bufio.NewWriterSize(f, 1<<16)
			}
		}
		if v := os.Getenv("VERIF_RESTART_EVERY"); v != "" {
			restartEach, _ = strconv.ParseInt(v, 10, 64)
		}
	})
}

// TraceFlush must be called before the process exits.
func TraceFlush() {
	if traceW != nil {
		traceW.Flush()
		traceF.Sync()
	}
}

func short(b []byte) string {
	h := sha256.Sum256(b)
	return hex.EncodeToString(h[:10])
}

func (w *World) trace(st *Step) {
	if traceW == nil {
		return
	}
	var ks []string
	for k := range st.P {
		ks = append(ks, k)
	}
	sort.Strings(ks)
	in := st.Kind + "|" + st.Via + "|"
	for _, k := range ks {
		in += k + "=" + st.P[k] + ";"
	}
	in += "|" + short(st.TxBytes)
	// error and log texts are not part of what consensus hashes (and may print maps, pointers or local times)
	out := fmt.Sprintf("ack=%v|fail=%v|panic=%v", st.Ack, st.Fail, st.Panic != "")
	if st.TxRes != nil {
		out += fmt.Sprintf("|code=%d|gas=%d/%d|data=%s", st.TxRes.Code, st.TxRes.GasWanted, st.TxRes.GasUsed, short(st.TxRes.Data))
	}
	if st.EndBlock != nil {
		for _, u := range st.EndBlock.ValidatorUpdates {
			bz, _ := u.Marshal()
			out += "|vu=" + short(bz)
		}
		if st.EndBlock.ConsensusParamUpdates != nil {
			bz, _ := st.EndBlock.ConsensusParamUpdates.Marshal()
			out += "|cpu=" + short(bz)
		}
	}
	if st.Kind == "begin_block" {
		out += "|apphash=" + hex.EncodeToString(w.C.LastAppHash)
	}
	// the oracle's open rounds are what decides which price transactions are accepted next (and what the workload
	// generator looks at): part of the judged output
	if open := oraclekeeper.VerifOpenRounds(); len(open) > 0 {
		var fs []string
		for f, b := range open {
			fs = append(fs, fmt.Sprintf("%d:%d", f, b))
		}
		sort.Strings(fs)
		out += "|open-rounds=" + strings.Join(fs, ",")
	}
	mem := ""
	if w.Last != nil {
		out += "|stores=" + w.Last.Raw.Digest()
		mem = short([]byte(w.Last.OracleMem))
	}
	if os.Getenv("VERIF_TRACE_VERBOSE") != "" {
		fmt.Fprintf(traceW, "%d %d %s %s %s %s # %s # %s # %s\n", w.seq, st.I, st.Kind, short([]byte(in)), short([]byte(out)), mem, out, st.Err+st.Panic, in)
		return
	}
	fmt.Fprintf(traceW, "%d %d %s %s %s %s\n", w.seq, st.I, st.Kind, short([]byte(in)), short([]byte(out)), mem)
}
