package ops

import (
	"fmt"
	"math/big"
	"math/rand"

	"github.com/ethereum/go-ethereum/common"

	"verif/sim"
)

// phantomQueries is the second half of the read-only traffic of the query-serving replica of C08 (the first
// half, a dry run of every transaction before its delivery, is in sim/noise.go). Dry runs of transactions that are
// delivered right afterwards cannot show a leak whose trace the delivery itself leaves as well, so before every
// block end the replica also answers eth_call / eth_estimateGas requests for calls that are never sent: state
// changing precompile methods, called "from" the gateway address as any RPC user may claim, over the objects that
// exist at that moment. The requests are drawn from a PRNG of their own (seeded by height), never from the
// workload's, and they are not part of the trace: the traces of this replica must equal those of the replicas
// that serve nothing.
func (w *World) phantomQueries() {
	if !sim.QueryNoiseOn() || w.Dead || len(w.Assets) == 0 {
		return
	}
	r := rand.New(rand.NewSource(w.C.Height()*7919 + int64(w.seq)))
	ctx := w.C.Ctx()
	gw := w.gateway()
	a := w.Assets[r.Intn(len(w.Assets))]
	call := func(pc string, to common.Address, method string, args ...interface{}) {
		bz, err := w.C.PrecompileTx(ctx, gw, pc, to, method, args...)
		if err == nil {
			w.C.ServeDryRun(bz)
		}
	}
	fresh := common.HexToAddress(fmt.Sprintf("0x%040x", 0x9900000+r.Intn(1<<20)))
	for n := 0; n < 2; n++ {
		switch r.Intn(9) {
		case 0: // a new asset for a price token the oracle already has
			if cfg := w.C.Gen.Cfg.Assets; len(cfg) > 0 && cfg[0].HasOracle {
				call("assets", sim.AddrAssets, "registerToken", uint32(w.Assets[0].Lz), pad32(fresh.Bytes()), uint8(6), "Phantom", "meta", "TK0,Ethereum,8")
			}
		case 1: // a new asset with a new price token
			call("assets", sim.AddrAssets, "registerToken", uint32(w.Assets[0].Lz), pad32(fresh.Bytes()), uint8(6), "Phantom", "meta", fmt.Sprintf("PH%d,Ethereum,8", r.Intn(1<<20)))
		case 2:
			if !a.NST && !a.Native {
				call("assets", sim.AddrAssets, "updateToken", uint32(a.Lz), pad32(a.Addr), "phantom meta")
			}
		case 3:
			call("assets", sim.AddrAssets, "registerOrUpdateClientChain", uint32(7000+r.Intn(100)), uint8(20), "phantom", "phantom chain", "ECDSA")
		case 4, 5:
			if len(w.Stakers) > 0 && !a.Native {
				s := w.Stakers[r.Intn(len(w.Stakers))]
				method, second := "depositLST", pad32(a.Addr)
				if a.NST {
					method, second = "depositNST", pad32([]byte{9, 9, 9, byte(r.Intn(250))})
				}
				call("assets", sim.AddrAssets, method, uint32(a.Lz), second, pad32(s.Addr), big.NewInt(int64(1+r.Intn(1_000_000))))
			}
		case 6, 7:
			if len(w.Stakers) > 0 && len(w.Opers) > 0 && !a.Native {
				s := w.Stakers[r.Intn(len(w.Stakers))]
				o := w.Opers[r.Intn(len(w.Opers))]
				kind := []string{"delegate", "undelegate"}[r.Intn(2)]
				call("delegation", sim.AddrDelegation, kind, uint32(a.Lz), uint64(1<<40+r.Intn(1<<20)), pad32(a.Addr), pad32(s.Addr), []byte(o.Addr()), big.NewInt(int64(1+r.Intn(1000))))
			}
		case 8:
			if len(w.Stakers) > 0 && len(w.Opers) > 0 {
				s := w.Stakers[r.Intn(len(w.Stakers))]
				o := w.Opers[r.Intn(len(w.Opers))]
				if r.Intn(2) == 0 {
					call("delegation", sim.AddrDelegation, "associateOperatorWithStaker", uint32(s.Lz), pad32(s.Addr), []byte(o.Addr()))
				} else {
					call("delegation", sim.AddrDelegation, "dissociateOperatorFromStaker", uint32(s.Lz), pad32(s.Addr))
				}
			}
		}
	}
}
