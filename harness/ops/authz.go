package ops

import (
	"github.com/ethereum/go-ethereum/common"

	sdk "github.com/cosmos/cosmos-sdk/types"

	"verif/sim"
)

// Fund gives a fresh account gas money (bank transfer from the gateway account, outside the monitored stores).
func (w *World) Fund(a *sim.Account) { w.fund(a) }

// GatewayCall sends a precompile call from the configured gateway (EOA or proxy contract) as a recorded step.
func (w *World) GatewayCall(kind, pc string, to common.Address, method string, p map[string]string, args ...interface{}) *Step {
	return w.gatewayCall(kind, pc, to, method, p, args...)
}

// CallVia sends the precompile call through the forwarding contract `via` (mode 0: forward and return): the
// transaction's origin is `from`, the precompile's immediate caller is the contract.
func (w *World) CallVia(kind string, from *sim.Account, via common.Address, pc string, to common.Address, method string, p map[string]string, args ...interface{}) *Step {
	st := w.newStep(kind, "evm")
	for k, v := range p {
		st.P[k] = v
	}
	st.P["method"], st.P["from"], st.P["via"] = method, from.Name, via.String()
	data, err := sim.ABI(pc).Pack(method, args...)
	if err != nil {
		st.Fail, st.Err = true, "build: "+err.Error()
		return w.finish(st)
	}
	bz, _, err := w.C.EthTx(w.C.Ctx(), sim.EthTxArgs{From: from, To: &via, Data: w.proxyData(to, 0, data), GasLimit: 2_000_000})
	if err != nil {
		st.Fail, st.Err = true, "build: "+err.Error()
		return w.finish(st)
	}
	st.TxBytes = bz
	n := len(w.C.Panics)
	res, ok := w.C.DeliverTx(bz)
	if !ok {
		st.Panic, st.Fail = w.C.Panics[n].Value, true
		return w.finish(st)
	}
	st.TxRes = &res
	er := sim.DecodeEthResult(res)
	st.Eth = &er
	switch {
	case er.Failed:
		st.Fail = true
		st.Err = "vmerr " + er.VmError
	case sim.PrecompileSuccess(pc, method, er):
		st.Ack = true
	default:
		st.Fail = true
		st.Err = "precompile returned false"
	}
	return w.finish(st)
}

// CosmosStep signs msgs as acct (with opts) and delivers the transaction as a recorded step.
func (w *World) CosmosStep(kind string, acct *sim.Account, opts sim.CosmosTxOpts, p map[string]string, msgs ...sdk.Msg) *Step {
	st := w.newStep(kind, "cosmos")
	for k, v := range p {
		st.P[k] = v
	}
	bz, err := w.C.CosmosTx(w.C.Ctx(), acct, opts, msgs...)
	w.deliver(st, bz, err)
	return w.finish(st)
}
