package ops

import (
	"fmt"
	delegationtypes "github.com/ExocoreNetwork/exocore/x/delegation/types"
	"github.com/ethereum/go-ethereum/common"
	"math/big"
	"math/rand"
	"sort"
	"time"

	sdkmath "cosmossdk.io/math"
	abci "github.com/cometbft/cometbft/abci/types"
	sdk "github.com/cosmos/cosmos-sdk/types"

	authtypes "github.com/cosmos/cosmos-sdk/x/auth/types"
	govtypes "github.com/cosmos/cosmos-sdk/x/gov/types"

	avstypes "github.com/ExocoreNetwork/exocore/x/avs/types"
	dogfoodtypes "github.com/ExocoreNetwork/exocore/x/dogfood/types"
	operatortypes "github.com/ExocoreNetwork/exocore/x/operator/types"

	"verif/evm"
	"verif/sim"
)

// LedgerOpts sizes one history of the `ledger` profile.
type LedgerOpts struct {
	Steps          int
	NOps           int // genesis validators
	ExtraOps       int // operators registered at run time
	NStakers       int
	Profile        string // "ledger" (default), "exit" (undelegation heavy), "slash", "keys"
	MaxVals        uint32
	Unbond         uint32
	MinSelf        int64
	HostileAmt     bool
	GenesisRecords bool
	// OracleStart > 0 starts every token feeder at that block (default: feeders never start in ledger histories)
	OracleStart uint64
	// NoDrain: stop right after the last generated step (pending records, holds and queue entries stay in the state)
	NoDrain bool
	// NativeStaking: before the workload the gateway registers client chain 0 and the chain's own token as a staking
	// asset (priced by the first genesis asset's price token) and governance adds it to the dogfood AVS's assets: native
	// delegations then carry voting power and are slashed like any other asset. Used by the liveness families only.
	NativeStaking bool
	// ChainID: another chain id than the default "exocore_233-1" (later revisions of the main network's id)
	ChainID string
}

func DefaultLedgerOpts() LedgerOpts {
	return LedgerOpts{Steps: 120, NOps: 3, ExtraOps: 3, NStakers: 6, Profile: "ledger", Unbond: 2, HostileAmt: true}
}

// BuildLedgerWorld creates the chain and actors for history (seed, idx).
func BuildLedgerWorld(seed int64, idx int, o LedgerOpts) (*World, error) {
	r := rand.New(rand.NewSource(seed*1_000_003 + int64(idx)))
	stakes := make([]int64, o.NOps)
	for i := range stakes {
		switch r.Intn(4) {
		case 0:
			stakes[i] = 100
		case 1:
			stakes[i] = int64(1 + r.Intn(5))
		default:
			stakes[i] = int64(50 + r.Intn(500))
		}
	}
	if stakes[0] < o.MinSelf+10 {
		stakes[0] = o.MinSelf + 10 + int64(r.Intn(100)) // the protected validator stays eligible
	}
	cfg := sim.DefaultConfig(o.NOps, stakes)
	if o.ChainID != "" {
		cfg.ChainID = o.ChainID
	}
	if o.Profile == "power" && idx%2 == 0 {
		// a fourth staking asset without decimals (legal: only an upper bound is enforced), priced 7
		cfg.Assets = append(cfg.Assets, sim.AssetCfg{Address: "0x00000000000000000000000000000000000000d0", LzChainID: 101, Decimals: 0, HasOracle: true, Price: "7", PriceDec: 0, FeederStart: 10000000, Interval: 10})
	}
	if o.Profile == "power" && idx%4 == 1 {
		// a staking asset the oracle knows nothing about: every AVS that lists it cannot be valued (its epoch-end update
		// fails and is not judged), which must not keep the other AVSs of the same epoch from being updated
		cfg.Assets = append(cfg.Assets, sim.AssetCfg{Address: "0x00000000000000000000000000000000000000e0", LzChainID: 101, Decimals: 18, HasOracle: false})
	}
	if o.OracleStart > 0 {
		for i := range cfg.Assets {
			cfg.Assets[i].FeederStart = o.OracleStart
		}
	}
	if o.Unbond > 0 {
		cfg.Dogfood.EpochsUntilUnbonded = o.Unbond
	}
	if o.MaxVals > 0 {
		// the genesis validator set must fit (the module's own genesis validation refuses more validators than the
		// maximum); the cap bites as soon as run-time operators opt in
		if int(o.MaxVals) < o.NOps {
			o.MaxVals = uint32(o.NOps)
		}
		cfg.Dogfood.MaxValidators = o.MaxVals
	}
	if o.MinSelf > 0 {
		cfg.Dogfood.MinSelfDelegation = sdkmath.NewInt(o.MinSelf)
	}
	c, err := sim.NewChain(cfg)
	if err != nil {
		return nil, err
	}
	w := NewWorld(c, r)
	for i := 0; i < o.ExtraOps; i++ {
		a := sim.NewAccount(fmt.Sprintf("xop%d", i))
		w.Opers = append(w.Opers, &Oper{Acct: a})
	}
	// stakers: client-chain addresses; the first two exist on both chains 0x65 and 0x650 with the same address
	for i := 0; i < o.NStakers; i++ {
		addr := sim.NewAccount(fmt.Sprintf("staker%d", i)).Eth.Bytes()
		w.AddStaker(101, addr)
		if i < 2 {
			w.AddStaker(1616, addr)
		}
	}
	for _, a := range cfg.Accounts[1:4] {
		w.AddNativeStaker(a)
		c.Watch = append(c.Watch, a.Acc)
	}
	return w, nil
}

// fundExtraOps: accounts of run-time operators need gas money; they are part of cfg.Accounts? No - send via bank is
// avoided: run-time operators are created from funded genesis accounts instead.

// amount picks an amount relative to max (which may be zero).
func (w *World) amount(max sdkmath.Int, hostile bool) sdkmath.Int {
	r := w.R
	one := sdkmath.OneInt()
	if max.IsNil() || !max.IsPositive() {
		if hostile && r.Intn(2) == 0 {
			return one
		}
		return sdkmath.NewInt(int64(1 + r.Intn(1000)))
	}
	switch x := r.Intn(100); {
	case x < 40:
		v := new(big.Int).Rand(r, max.BigInt())
		return sdkmath.NewIntFromBigInt(v).Add(one)
	case x < 55:
		return max
	case x < 63:
		return one
	case x < 70:
		if max.GT(one) {
			return max.Sub(one)
		}
		return one
	case x < 80:
		// small fraction
		v := max.QuoRaw(int64(2 + r.Intn(1000)))
		if !v.IsPositive() {
			v = one
		}
		return v
	case x < 88 && hostile:
		return max.Add(one) // just too much
	case x < 92 && hostile:
		return sdkmath.ZeroInt()
	case x < 95 && hostile:
		return sdkmath.NewIntFromBigInt(new(big.Int).Lsh(big.NewInt(1), 255))
	default:
		v := new(big.Int).Rand(r, max.BigInt())
		return sdkmath.NewIntFromBigInt(v).Add(one)
	}
}

// depositAmount: log-uniform with spikes.
func (w *World) depositAmount(a *Asset, hostile bool) sdkmath.Int {
	r := w.R
	switch x := r.Intn(100); {
	case x < 5:
		return sdkmath.OneInt()
	case x < 8 && hostile:
		return sdkmath.NewIntFromBigInt(new(big.Int).Lsh(big.NewInt(1), 255))
	case x < 10 && hostile:
		return sdkmath.ZeroInt()
	case x < 20:
		// 10^k +- 1
		k := r.Intn(int(a.Decimals) + 6)
		v := sdkmath.NewIntWithDecimal(1, k)
		switch r.Intn(3) {
		case 0:
			v = v.AddRaw(1)
		case 1:
			if v.GT(sdkmath.OneInt()) {
				v = v.SubRaw(1)
			}
		}
		return v
	default:
		bits := 1 + r.Intn(int(a.Decimals)*3+30)
		return sdkmath.NewIntFromBigInt(randBig(r, bits))
	}
}

func randBig(r *rand.Rand, bits int) *big.Int {
	b := new(big.Int).Lsh(big.NewInt(1), uint(bits))
	x := new(big.Int).Rand(r, b)
	return x.Add(x, big.NewInt(1))
}

func (w *World) pickStaker(lz uint64, native bool) *Staker {
	var c []*Staker
	for _, s := range w.Stakers {
		if native {
			if s.Acct != nil {
				c = append(c, s)
			}
		} else if s.Acct == nil && s.Lz == lz {
			c = append(c, s)
		}
	}
	if len(c) == 0 {
		return nil
	}
	return c[w.R.Intn(len(c))]
}

func (w *World) pickAsset() *Asset {
	n := len(w.Assets) + 1
	i := w.R.Intn(n)
	if i == len(w.Assets) {
		return w.Native
	}
	return w.Assets[i]
}

func (w *World) pickOper(registeredOnly bool) *Oper {
	var c []*Oper
	for _, o := range w.Opers {
		if !registeredOnly || o.Registered {
			c = append(c, o)
		}
	}
	if len(c) == 0 {
		return w.Opers[0]
	}
	return c[w.R.Intn(len(c))]
}

// a delegation (staker, asset, operator) with positive share, if any
type deleg struct {
	s *Staker
	a *Asset
	o *Oper
}

func (w *World) liveDelegations() []deleg {
	var out []deleg
	l := w.Last.Ledger
	for _, s := range w.Stakers {
		assets := w.Assets
		if s.Acct != nil {
			assets = []*Asset{w.Native}
		}
		for _, a := range assets {
			if s.Acct == nil && a.Lz != s.Lz {
				continue
			}
			for _, o := range w.Opers {
				if d, ok := l.Delegation[s.ID+"/"+a.ID+"/"+o.Addr()]; ok && d.UndelegatableShare.IsPositive() {
					out = append(out, deleg{s, a, o})
				}
			}
		}
	}
	return out
}

func (w *World) dogfoodChainID() string { return avstypes.ChainIDWithoutRevision(w.C.ChainID) }

// OperState classifies an operator's lifecycle state w.r.t. the dogfood AVS.
func OperState(w *World, o *Oper) string {
	ctx := w.C.Ctx()
	k := w.C.App.OperatorKeeper
	chain := avstypes.ChainIDWithoutRevision(w.C.ChainID)
	if !k.IsOperator(ctx, o.Acct.Acc) {
		return "unregistered"
	}
	removing := k.IsOperatorRemovingKeyFromChainID(ctx, o.Acct.Acc, chain)
	opted := k.IsOptedIn(ctx, o.Addr(), w.AVSAddr)
	found, key, _ := k.GetOperatorConsKeyForChainID(ctx, o.Acct.Acc, chain)
	inSet := false
	if found && key != nil {
		_, inSet = w.C.App.StakingKeeper.GetExocoreValidator(ctx, key.ToConsAddr())
	}
	prevFound, prevKey, _ := k.GetOperatorPrevConsKeyForChainID(ctx, o.Acct.Acc, chain)
	prevInSet := false
	if prevFound && prevKey != nil {
		_, prevInSet = w.C.App.StakingKeeper.GetExocoreValidator(ctx, prevKey.ToConsAddr())
	}
	info, err := k.GetOptedInfo(ctx, o.Addr(), w.AVSAddr)
	jailed := err == nil && info.Jailed
	slashed := false
	for k2 := range w.Last.Raw["operator"] {
		if len(k2) > 0 && k2[0] == operatortypes.KeyPrefixOperatorSlashInfo[0] && len(k2) > len(o.Addr()) && k2[1:1+len(o.Addr())] == o.Addr() {
			slashed = true
			break
		}
	}
	switch {
	case removing && (inSet || prevInSet):
		return "opting-out"
	case removing:
		return "opted-out-before-activation"
	case !opted && !found:
		if err == nil {
			return "opted-out"
		}
		return "never-opted"
	case jailed:
		return "jailed"
	case prevFound:
		return "key-replaced"
	case opted && inSet && slashed:
		return "active-slashed"
	case opted && inSet:
		return "active"
	case opted:
		return "opted-not-active"
	}
	return "other"
}

// RunLedger drives one history.
func (w *World) RunLedger(o LedgerOpts) {
	if !w.Start() {
		return
	}
	r := w.R
	hostile := o.HostileAmt
	// seed activity: a few deposits so that later ops have something to work with
	for i := 0; i < 4 && !w.Dead; i++ {
		a := w.Assets[r.Intn(len(w.Assets))]
		if s := w.pickStaker(a.Lz, false); s != nil {
			w.Deposit(s, a, w.depositAmount(a, false))
		}
	}
	if o.NativeStaking && !w.Dead {
		st1 := w.gatewayCall("register_native_chain", "assets", sim.AddrAssets, "registerOrUpdateClientChain", nil, uint32(0), uint8(20), "exocore", "the chain itself", "ECDSA")
		st2 := w.gatewayCall("register_native_token", "assets", sim.AddrAssets, "registerToken", nil, uint32(0), pad32(make([]byte, 20)), uint8(18), "Native", "the chain's own token", "TK0,Ethereum,8")
		if st1.Ack && st2.Ack {
			p := w.Last.Dog.Params
			p.AssetIDs = append(append([]string{}, p.AssetIDs...), w.Native.ID)
			st := w.GovStep("dogfood_params", &dogfoodtypes.MsgUpdateParams{Authority: authtypes.NewModuleAddress(govtypes.ModuleName).String(), Params: p})
			st.P["native-staking"] = fmt.Sprint(st.Ack)
			w.NativeStaking = st.Ack
		}
	}
	slashN := 0
	wInvalid := 0
	nTok := 0
	useProxy := false
	if o.Profile == "invalid" {
		wInvalid = 420
		useProxy = r.Intn(5) < 2
	}
	if useProxy {
		if !w.UseProxyGateway(evm.ProxyRuntime(), evm.Deploy(evm.ProxyRuntime())) {
			useProxy = false
		}
	}
	wPrice, wAvsOpt, wParam := 0, 0, 0
	if o.Profile == "queues" {
		wParam = 20
	}
	var extraAVS []string
	avsSpecs := map[string]AVSSpec{}
	avsEmptied := map[string]bool{}
	if o.Profile == "power" {
		wPrice, wAvsOpt = 45, 45
		ids := []string{"minute", "hour", "minute"}
		nExtra := 1 + r.Intn(2)
		unpriced, which := "", 0
		for i, a := range w.C.Gen.Cfg.Assets {
			if !a.HasOracle && !a.NST && a.Address == "0x00000000000000000000000000000000000000e0" {
				unpriced = w.Assets[i].ID
			}
		}
		if unpriced != "" {
			which = r.Intn(2)
			nExtra = 2 // one AVS that cannot be valued next to one that can, both on the validator set's epoch identifier
		}
		for i := 0; i < nExtra; i++ {
			owner := w.C.Gen.Cfg.Accounts[4+i]
			var assets []string
			for _, a := range w.Assets {
				if a.ID == unpriced {
					continue
				}
				if r.Intn(2) == 0 || len(assets) == 0 {
					assets = append(assets, a.ID)
				}
			}
			spec := AVSSpec{Owner: owner, Name: fmt.Sprintf("avs%d", i), Assets: assets, MinSelf: []uint64{0, 0, 1, 50, 1000}[r.Intn(5)],
				EpochID: ids[r.Intn(len(ids))], Unbonding: uint64(1 + r.Intn(3)), TaskAddr: sim.NewAccount(fmt.Sprintf("task%d", i)).Eth}
			if unpriced != "" {
				spec.EpochID = "minute"
				if i == which { // either the one that sorts first or the one that sorts last among the AVSs of the epoch
					spec.Assets = append(spec.Assets, unpriced)
				}
			}
			if st := w.RegisterAVS(spec); st.Ack {
				extraAVS = append(extraAVS, owner.Eth.String())
				avsSpecs[owner.Eth.String()] = spec
			}
		}
	}
	wSlash, wUndel, wKeys, wOpt, wEvid := 45, 170, 30, 25, 8
	switch o.Profile {
	case "slash":
		wSlash, wEvid = 140, 25
	case "exit":
		wUndel, wOpt = 230, 40
	case "keys":
		wKeys, wOpt, wEvid = 110, 60, 20
	case "queues":
		wKeys, wOpt, wUndel = 80, 60, 220
	}
	for len(w.Steps) < o.Steps && !w.Dead {
		// weights are relative; block advancement keeps a fixed share (about one step in seven) in every profile
		if useProxy {
			// what the gateway contract does after forwarding the call: mostly return, sometimes revert at top level,
			// burn all gas, or write its own storage
			w.ProxyMode = []byte{0, 0, 0, 0, 0, 1, 1, 2, 3}[r.Intn(9)]
		}
		sum := wInvalid + 110 + 60 + 150 + wUndel + 40 + 40 + 25 + 25 + (wOpt + 10) + wOpt + wKeys + wSlash + 35 + wParam + wPrice + wAvsOpt + 10 + wEvid
		x := r.Intn(sum + sum/6)
		wt := func(n int) bool { x -= n; return x < 0 }
		l := w.Last.Ledger
		// directed: in the block whose BeginBlock closed a dogfood epoch, aim undelegations at operators whose
		// opt-out matures in this very block (their queue has just been drained, EndBlock has not run yet)
		if d := w.Last.Dog; d.EpochEnd && len(d.PendingOptOuts) > 0 && r.Intn(3) == 0 {
			target := d.PendingOptOuts[r.Intn(len(d.PendingOptOuts))]
			done := false
			for _, e := range w.liveDelegations() {
				if e.o.Addr() == target && !(e.s == w.Stakers[0] && e.o == w.Opers[0]) {
					pos := Position(l, e.s.ID, e.a.ID, e.o.Addr())
					if pos.IsPositive() {
						w.Undelegate(e.s, e.a, e.o, w.amount(pos, false))
						done = true
						break
					}
				}
			}
			if done {
				continue
			}
		}
		switch {
		case wt(wInvalid): // an operation that is invalid in exactly one way
			if r.Intn(12) == 0 {
				nTok++
				w.RegisterToken(nTok) // a valid registration (under the proxy it may be reverted at top level)
			} else {
				w.InvalidOp()
			}
		case wt(110): // deposit
			a := w.Assets[r.Intn(len(w.Assets))]
			if s := w.pickStaker(a.Lz, false); s != nil {
				w.Deposit(s, a, w.depositAmount(a, hostile))
			}
		case wt(60): // withdraw
			a := w.Assets[r.Intn(len(w.Assets))]
			if s := w.pickStaker(a.Lz, false); s != nil {
				row := l.Staker[s.ID+"/"+a.ID]
				w.Withdraw(s, a, w.amount(row.WithdrawableAmount, hostile))
			}
		case wt(150): // delegate
			a := w.pickAsset()
			op := w.pickOper(r.Intn(10) != 0)
			if a.Native {
				if s := w.pickStaker(0, true); s != nil {
					bal := l.Bal[s.Acct.Acc.String()]
					max := bal.QuoRaw(1000)
					amt := w.amount(max, hostile)
					w.Delegate(s, a, op, amt)
				}
			} else if s := w.pickStaker(a.Lz, false); s != nil {
				row := l.Staker[s.ID+"/"+a.ID]
				w.Delegate(s, a, op, w.amount(row.WithdrawableAmount, hostile))
			}
		case wt(wUndel): // undelegate
			ds := w.liveDelegations()
			if len(ds) == 0 {
				continue
			}
			d := ds[r.Intn(len(ds))]
			if d.s == w.Stakers[0] && d.o == w.Opers[0] {
				continue // the protected validator keeps its self stake so that the validator set never empties
			}
			pos := Position(l, d.s.ID, d.a.ID, d.o.Addr())
			amt := w.amount(pos, hostile)
			if d.a.Native && r.Intn(3) == 0 {
				// multi-operator message
				var os []*Oper
				var amts []sdkmath.Int
				for _, e := range ds {
					if e.s == d.s && e.a == d.a && len(os) < 3 {
						os = append(os, e.o)
						amts = append(amts, w.amount(Position(l, e.s.ID, e.a.ID, e.o.Addr()), false))
					}
				}
				if r.Intn(4) == 0 {
					// the same operator named twice in one message (two parts of the position)
					half := pos.QuoRaw(3)
					if half.IsPositive() {
						w.NativeUndelegateMulti(d.s, []*Oper{d.o, d.o}, []sdkmath.Int{half, half})
						continue
					}
				}
				if len(os) >= 2 {
					w.NativeUndelegateMulti(d.s, os, amts)
					continue
				}
			}
			w.Undelegate(d.s, d.a, d.o, amt)
		case wt(40): // round trip: fresh staker delegates x then undelegates everything
			a := w.Assets[r.Intn(len(w.Assets))]
			op := w.pickOper(true)
			s := w.pickStaker(a.Lz, false)
			if s == nil {
				continue
			}
			if d, ok := l.Delegation[s.ID+"/"+a.ID+"/"+op.Addr()]; ok && d.UndelegatableShare.IsPositive() {
				continue
			}
			row := l.Staker[s.ID+"/"+a.ID]
			if !row.WithdrawableAmount.IsNil() && row.WithdrawableAmount.IsPositive() {
				x := w.amount(row.WithdrawableAmount, false)
				st := w.Delegate(s, a, op, x)
				if st.Ack {
					pos := Position(w.Last.Ledger, s.ID, a.ID, op.Addr())
					if pos.IsPositive() {
						w.Undelegate(s, a, op, pos)
					}
				}
			}
		case wt(40): // associate
			s := w.pickStaker([]uint64{101, 1616}[r.Intn(2)], false)
			if s != nil {
				op := w.pickOper(r.Intn(8) != 0)
				if r.Intn(3) == 0 && op.Registered && s != w.Stakers[0] {
					// the staker first delegates every asset of its chain to that operator (an association then has
					// several delegations to credit)
					for _, a := range w.Assets {
						if a.Lz != s.Lz || a.Native {
							continue
						}
						amt := w.depositAmount(a, false)
						if st := w.Deposit(s, a, amt); st.Ack {
							w.Delegate(s, a, op, amt.QuoRaw(int64(1+r.Intn(3))))
						}
					}
				}
				w.Associate(s, op)
			}
		case wt(25): // dissociate
			s := w.pickStaker([]uint64{101, 1616}[r.Intn(2)], false)
			if s != nil && s != w.Stakers[0] { // the protected validator keeps its self-delegation
				w.Dissociate(s)
			}
		case wt(25): // register an extra operator
			for _, op := range w.Opers {
				if !op.Registered {
					w.fund(op.Acct)
					w.RegisterOperator(op)
					break
				}
			}
		case wt(wOpt + 10): // opt in (with key) to dogfood
			op := w.pickOper(true)
			if r.Intn(2) == 0 {
				for _, cand := range w.Opers {
					if cand.Registered && len(cand.Keys) == 0 {
						op = cand // a registered operator that has never had a key
						break
					}
				}
			}
			key := sim.NewConsKey(fmt.Sprintf("%s-k%d", op.Acct.Name, op.NextKey))
			op.NextKey++
			w.fund(op.Acct)
			if len(op.Keys) == 0 && r.Intn(2) == 0 {
				// a newcomer whose power ties with a sitting validator's (asset 0: 6 decimals, genesis price 1): with the
				// set full, the tie sits on the max-validators boundary
				var powers []int64
				for _, v := range w.Last.Dog.Validators {
					powers = append(powers, v.Power)
				}
				sort.Slice(powers, func(i, j int) bool { return powers[i] < powers[j] })
				if len(powers) > 0 && powers[0] > 0 && powers[0] < 1_000_000 {
					if s := w.pickStaker(w.Assets[0].Lz, false); s != nil {
						amt := sdkmath.NewInt(powers[r.Intn(len(powers))] * 1_000_000)
						if st := w.Deposit(s, w.Assets[0], amt); st.Ack {
							w.Delegate(s, w.Assets[0], op, amt)
						}
					}
				}
			}
			w.OptIn(op, w.AVSAddr, key)
		case wt(wOpt): // opt out
			if op := w.pickOper(true); op != w.Opers[0] {
				w.OptOut(op, w.AVSAddr)
			}
		case wt(wKeys): // replace key
			op := w.pickOper(true)
			var key *sim.ConsKey
			choice := r.Intn(6)
			if op == w.Opers[0] {
				choice = 5 // the protected validator only uses fresh keys (a recycled key carries x/slashing history)
			}
			switch choice {
			case 0:
				if len(op.Keys) > 0 { // back to an earlier key of its own
					key = op.Keys[r.Intn(len(op.Keys))]
				}
			case 1: // another operator's key
				other := w.pickOper(true)
				if len(other.Keys) > 0 {
					key = other.Keys[r.Intn(len(other.Keys))]
				}
			}
			if key == nil {
				key = sim.NewConsKey(fmt.Sprintf("%s-k%d", op.Acct.Name, op.NextKey))
				op.NextKey++
			}
			w.fund(op.Acct)
			kst := w.SetKey(op, w.AVSAddr, key)
			if kst.Ack && r.Intn(3) == 0 {
				// a second replacement right away (same epoch), then somebody undelegates from that operator
				k2 := sim.NewConsKey(fmt.Sprintf("%s-k%d", op.Acct.Name, op.NextKey))
				op.NextKey++
				w.SetKey(op, w.AVSAddr, k2)
				for _, e := range w.liveDelegations() {
					if e.o == op && !(e.s == w.Stakers[0] && e.o == w.Opers[0]) {
						pos := Position(w.Last.Ledger, e.s.ID, e.a.ID, e.o.Addr())
						if pos.IsPositive() {
							w.Undelegate(e.s, e.a, e.o, w.amount(pos, false))
							break
						}
					}
				}
			}
		case wt(wSlash): // slash (keeper step)
			slashN++
			w.randomSlash(slashN)
		case wt(35): // NST balance update
			var nst *Asset
			for _, a := range w.Assets {
				if a.NST {
					nst = a
				}
			}
			if nst == nil {
				continue
			}
			s := w.pickStaker(nst.Lz, false)
			// prefer a staker that has pending NST undelegations (the decrease then walks through them)
			var undelKeys []string
			for k := range l.Undel {
				undelKeys = append(undelKeys, k)
			}
			sort.Strings(undelKeys) // the PRNG is consulted inside the loop: the order must not be the map's
			for _, uk := range undelKeys {
				rec := l.Undel[uk]
				if rec.AssetID == nst.ID && r.Intn(2) == 0 {
					for _, cand := range w.Stakers {
						if cand.ID == rec.StakerID {
							s = cand
						}
					}
				}
			}
			if s == nil {
				continue
			}
			row, ok := l.Staker[s.ID+"/"+nst.ID]
			if !ok {
				continue
			}
			var d sdkmath.Int
			if r.Intn(3) == 0 {
				d = w.depositAmount(nst, false)
			} else {
				wd := row.WithdrawableAmount
				pend, del := sdkmath.ZeroInt(), sdkmath.ZeroInt()
				for _, rec := range l.Undel {
					if rec.StakerID == s.ID && rec.AssetID == nst.ID {
						pend = pend.Add(rec.ActualCompletedAmount)
					}
				}
				for _, o := range w.Opers {
					del = del.Add(Position(l, s.ID, nst.ID, o.Addr()))
				}
				frac := func(x sdkmath.Int) sdkmath.Int {
					if !x.IsPositive() {
						return sdkmath.ZeroInt()
					}
					return sdkmath.NewIntFromBigInt(new(big.Int).Rand(r, x.BigInt())).AddRaw(1)
				}
				switch r.Intn(5) {
				case 0:
					d = frac(wd)
				case 1:
					d = wd.Add(frac(pend)) // ends inside the pending undelegations
				case 2:
					d = wd.Add(pend)
				case 3:
					d = wd.Add(pend).Add(frac(del)) // reaches the delegated shares
				default:
					d = wd.Add(pend).Add(del).AddRaw(int64(1 + r.Intn(1000)))
				}
				if !d.IsPositive() {
					d = sdkmath.OneInt()
				}
				d = d.Neg()
			}
			// the only caller of UpdateNSTBalance (the oracle's balance-change report) derives the amount from at
			// most 256 validators x 32 tokens: larger magnitudes cannot reach this entry point
			if lim := sdkmath.NewIntWithDecimal(32*256, int(nst.Decimals)); d.Abs().GT(lim) {
				if d.IsNegative() {
					d = lim.Neg()
				} else {
					d = lim
				}
			}
			w.NSTUpdateStep(s, nst, d)
		case wt(wParam): // governance changes the number of unbonding epochs
			p := w.Last.Dog.Params
			p.EpochsUntilUnbonded = uint32(1 + r.Intn(4))
			st := w.GovStep("dogfood_params", &dogfoodtypes.MsgUpdateParams{Authority: authtypes.NewModuleAddress(govtypes.ModuleName).String(), Params: p})
			st.P["unbond"] = fmt.Sprint(p.EpochsUntilUnbonded)
		case wt(wPrice): // move a price (non-NST tokens)
			var toks []int
			for i, a := range w.C.Gen.Cfg.Assets {
				if a.HasOracle && !a.NST {
					toks = append(toks, i)
				}
			}
			if len(toks) == 0 {
				continue
			}
			ai := toks[r.Intn(len(toks))]
			tid := uint64(0)
			n := uint64(0)
			for i, a := range w.C.Gen.Cfg.Assets {
				if a.HasOracle {
					n++
				}
				if i == ai {
					tid = n
				}
			}
			dec := int32(r.Intn(9))
			price := sdkmath.NewIntFromBigInt(randBig(r, 1+r.Intn(40))).String()
			if r.Intn(10) == 0 {
				price = "1"
			}
			w.PriceStep(tid, price, dec)
		case wt(wAvsOpt): // opt in / out of an extra AVS (no key)
			if len(extraAVS) == 0 {
				continue
			}
			avs := extraAVS[r.Intn(len(extraAVS))]
			if r.Intn(6) == 0 {
				// the AVS changes its asset list: to nothing, and back
				spec := avsSpecs[avs]
				assets := []string{}
				if avsEmptied[avs] {
					assets = spec.Assets
				}
				st := w.CallFrom("avs_update_assets", spec.Owner, "avs", sim.AddrAVS, "updateAVS", map[string]string{"avs": avs, "assets": fmt.Sprint(len(assets))},
					spec.Owner.Eth, spec.Name, uint64(1), spec.TaskAddr, common.HexToAddress("0x0000000000000000000000000000000000000902"), common.HexToAddress("0x0000000000000000000000000000000000000903"),
					[]string{spec.Owner.Acc.String()}, assets, spec.Unbonding, spec.MinSelf, spec.EpochID, []uint64{1, 1, 5, 5})
				if st.Ack {
					avsEmptied[avs] = !avsEmptied[avs]
				}
				continue
			}
			op := w.pickOper(true)
			w.fund(op.Acct)
			if r.Intn(4) == 0 {
				w.OptOut(op, avs)
			} else {
				w.OptIn(op, avs, nil)
			}
		case wt(10): // toggle absence of a validator (downtime path)
			if vs := w.C.ValSet.Validators; len(vs) > 1 {
				v := vs[r.Intn(len(vs))]
				hexa := fmt.Sprintf("%X", v.Address.Bytes())
				if w.isProtectedCons(v.Address.Bytes()) {
					continue
				}
				if w.C.Absent[hexa] {
					delete(w.C.Absent, hexa)
				} else if len(w.C.Absent) == 0 {
					w.C.Absent[hexa] = true
				}
			}
		case wt(wEvid): // double-sign evidence for a current validator
			if vs := w.C.ValSet.Validators; len(vs) > 0 && w.C.Height() > 2 {
				v := vs[r.Intn(len(vs))]
				if w.isProtectedCons(v.Address.Bytes()) {
					continue
				}
				hh := w.C.Height() - int64(r.Intn(2)) - 1
				w.C.NextEvidence = append(w.C.NextEvidence, abci.Misbehavior{
					Type: abci.MisbehaviorType_DUPLICATE_VOTE, Validator: abci.Validator{Address: v.Address, Power: v.VotingPower},
					Height: hh, Time: w.C.Header.Time.Add(-time.Duration(w.C.Height()-hh) * w.Dt), TotalVotingPower: w.C.ValSet.TotalVotingPower(),
				})
			}
		default: // advance block(s)
			dts := []time.Duration{time.Second, 5 * time.Second, 20 * time.Second, 20 * time.Second, 61 * time.Second, 130 * time.Second}
			n := 1
			if r.Intn(6) == 0 {
				n = 2 + r.Intn(10)
			}
			for i := 0; i < n && !w.Dead; i++ {
				w.Advance(dts[r.Intn(len(dts))])
			}
		}
	}
	// drain: run enough blocks for every pending record to mature
	for i := 0; i < 14 && !w.Dead && !o.NoDrain; i++ {
		w.Advance(61 * time.Second)
	}
}

// fund tops up an account from the gateway when it has no money (bank send through a keeper step
// would bypass nothing relevant here; we use a real MsgSend-free path: direct bank keeper transfer
// from the gateway account, which is not a restaking operation).
func (w *World) fund(a *sim.Account) {
	ctx := w.C.Ctx()
	bal := w.C.App.BankKeeper.GetBalance(ctx, a.Acc, "hua")
	if bal.Amount.GT(sdkmath.NewIntWithDecimal(1, 20)) {
		return
	}
	_ = w.C.App.BankKeeper.SendCoins(ctx, w.gateway().Acc, a.Acc, sdk.NewCoins(sdk.NewCoin("hua", sdkmath.NewIntWithDecimal(1, 21))))
	if w.C.App.AccountKeeper.GetAccount(ctx, a.Acc) == nil {
		w.C.App.AccountKeeper.SetAccount(ctx, w.C.App.AccountKeeper.NewAccountWithAddress(ctx, a.Acc))
	}
	// keep the snapshot chain consistent: the transfer is outside the monitored stores
	w.Last = w.C.Snapshot()
}

// isProtectedCons: is addr a consensus address of the protected operator 0?
func (w *World) isProtectedCons(addr []byte) bool {
	for _, k := range w.Opers[0].Keys {
		if string(k.ConsAddr()) == string(addr) {
			return true
		}
	}
	return false
}

func (w *World) randomSlash(n int) {
	r := w.R
	op := w.pickOper(true)
	// half of the time the target is an operator with pending undelegation records (a record can then be hit by
	// several slashes during its life), preferably the one slashed last
	if r.Intn(2) == 0 {
		var cands []*Oper
		for _, rec := range sortedUndel(w.Last.Ledger) {
			if o := w.OperByAddr(rec.OperatorAddr); o != nil && o != w.Opers[0] {
				cands = append(cands, o)
			}
		}
		if len(cands) > 0 {
			op = cands[r.Intn(len(cands))]
			if w.lastSlashed != nil && r.Intn(2) == 0 {
				for _, c := range cands {
					if c == w.lastSlashed {
						op = c
					}
				}
			}
		}
	}
	if op == w.Opers[0] {
		return
	}
	w.lastSlashed = op
	ctx := w.C.Ctx()
	h := w.C.Height()
	evh := h - int64(r.Intn(15))
	if r.Intn(5) == 0 {
		evh = h
	}
	if evh < 0 {
		evh = 0
	}
	// never at the current height when the operator has undelegations started in this block (unreachable in
	// production: slashes run in BeginBlock)
	if evh == h {
		for _, rec := range w.Last.Ledger.Undel {
			if rec.OperatorAddr == op.Addr() && rec.BlockNumber == uint64(h) {
				evh = h - 1
			}
		}
	}
	power := int64(1 + r.Intn(400))
	if vals, err := w.C.App.OperatorKeeper.GetOperatorOptedUSDValue(ctx, w.AVSAddr, op.Addr()); err == nil && r.Intn(2) == 0 && !vals.ActiveUSDValue.IsNil() {
		if t := vals.ActiveUSDValue.TruncateInt(); t.IsInt64() && t.Int64() > 0 {
			power = t.Int64()
		}
	}
	var prop sdkmath.LegacyDec
	switch r.Intn(12) {
	case 0:
		prop = sdkmath.LegacyZeroDec()
	case 1:
		prop = sdkmath.LegacyOneDec()
	case 2:
		prop = sdkmath.LegacyNewDecWithPrec(15, 1) // > 1: invalid
	case 3:
		prop = sdkmath.LegacyNewDecWithPrec(-1, 1) // negative: invalid
	case 4:
		prop = sdkmath.LegacyDec{} // nil: invalid
	case 5:
		prop = sdkmath.LegacyNewDecWithPrec(1, 18)
	default:
		prop = sdkmath.LegacyNewDecWithPrec(int64(1+r.Intn(999)), 3)
	}
	id := fmt.Sprintf("0x%x_0x%x", 1+r.Intn(2), n)
	if r.Intn(6) == 0 && n > 1 {
		id = fmt.Sprintf("0x%x_0x%x", 1, 1+r.Intn(n)) // likely replay
	}
	in := &operatortypes.SlashInputInfo{
		IsDogFood: true, Power: power, SlashType: 1, Operator: op.Acct.Acc, AVSAddr: w.AVSAddr,
		SlashID: id, SlashEventHeight: evh, SlashProportion: prop,
	}
	if r.Intn(10) == 0 {
		in.Power = 0
	}
	w.SlashStep(in)
}

// sortedUndel returns the pending undelegation records in key order (map iteration order must not leak into the
// generator's decisions).
func sortedUndel(l *sim.Ledger) []delegationtypes.UndelegationRecord {
	var ks []string
	for k := range l.Undel {
		ks = append(ks, k)
	}
	sort.Strings(ks)
	out := make([]delegationtypes.UndelegationRecord, 0, len(ks))
	for _, k := range ks {
		out = append(out, l.Undel[k])
	}
	return out
}
