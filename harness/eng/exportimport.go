package eng

import (
	"encoding/json"
	"fmt"
	"math/rand"
	"os"
	"reflect"
	"runtime/debug"
	"sort"
	"strings"
	"time"
	"unsafe"

	tmproto "github.com/cometbft/cometbft/proto/tendermint/types"
	"github.com/cosmos/cosmos-sdk/types/module"

	exocoreapp "github.com/ExocoreNetwork/exocore/app"

	"verif/mon"
	"verif/ops"
	"verif/sim"
)

// exportimport engine (C18): a state reached by a workload history is exported after a committed block; the
// exported documents of the eight restaking modules must validate, a fresh chain initialised from the export must
// hold byte-identical module stores and export the same documents again, and the original and the re-imported chain
// are then driven through the same continuation (same block times, same transactions where they can be built for
// both) and must keep the eight module stores byte-identical and return the same validator updates.
func init() {
	Register("exportimport", runExportImport)
	RegisterPlan(Plan{Prop: "C18", Engine: "exportimport", Quick: 480, Thorough: 6000, Level: "exploration", MinCases: 24,
		Rule: "states reached by 30-150 steps of the ledger profiles (default, exit, keys, queues, slash, power) and by oracle histories stopped at a random block (mid-epoch, mid oracle window, with pending undelegations, holds, opt-outs, key replacements, queue entries); after the commit: (1) export does not fail, (2) each of the 8 module documents passes its ValidateGenesis, (3) InitChain of a fresh application with the export succeeds, (4) the 8 module stores of the fresh chain equal the original's byte for byte, (5) exporting the fresh chain yields the same 8 documents, (6) original and fresh chain run 4-5 further epochs with identical block times; after every block the 8 module stores and the validator updates are compared. Distinct = <workload family, features present in the exported state (pending undelegations, holds, opt-outs, pending key removals, open oracle rounds, slashed pools, NST stakers), stage reached>."})
}

var c18Modules = []string{"assets", "delegation", "operator", "dogfood", "epochs", "oracle", "exomint", "feedistribution"}

// moduleManager digs the unexported module manager out of the application (read-only use: ExportGenesisForModules).
func moduleManager(app *exocoreapp.ExocoreApp) *module.Manager {
	f := reflect.ValueOf(app).Elem().FieldByName("mm")
	if !f.IsValid() {
		return nil
	}
	return reflect.NewAt(f.Type(), unsafe.Pointer(f.UnsafeAddr())).Elem().Interface().(*module.Manager)
}

type eiRun struct {
	s    *mon.Stats
	hist string
	fam  string
	feat string
}

func (e *eiRun) violate(rule, site string, step int, f string, a ...interface{}) {
	e.s.Violate(rule, site, e.hist, step, "[%s; state: %s] %s", e.fam, e.feat, fmt.Sprintf(f, a...))
}

func safely(f func()) (perr string) {
	defer func() {
		if r := recover(); r != nil {
			perr = fmt.Sprintf("%v\n%s", r, debug.Stack())
		}
	}()
	f()
	return ""
}

func runExportImport(j Job) *Result {
	res := NewResult()
	st := mon.NewStats("C18")
	for i := j.From; i < j.To; i++ {
		hist := fmt.Sprintf("exportimport:%d:%d", j.Seed, i)
		r := rand.New(rand.NewSource(j.Seed*472882027 + int64(i)))
		e := &eiRun{s: st, hist: hist}
		var w *ops.World
		if i%6 == 5 {
			e.fam = "oracle"
			cfg, feeders, maxNonce := oracleConfig(r)
			c, err := sim.NewChain(cfg)
			if err != nil {
				res.Inconclusive = "chain construction failed: " + err.Error()
				continue
			}
			w = ops.NewWorld(c, r)
			w.Dt = 7 * time.Second
			for k := 0; k < 3; k++ {
				w.AddStaker(101, sim.NewAccount(fmt.Sprintf("ostaker%d", k)).Eth.Bytes())
			}
			o := &oracleRun{w: w, r: r, hist: hist, c12: mon.NewStats("C12"), c13: mon.NewStats("C13"), feeders: feeders, maxNonce: maxNonce,
				cur: map[uint64]*oRound{}, closed: map[uint64]uint64{}, outsider: sim.NewConsKey("outsider"), tainted: map[uint64]string{}}
			for _, op := range w.Opers {
				if len(op.Keys) > 0 {
					o.vals = append(o.vals, op.Keys[0])
				}
			}
			o.noTaintClasses = true
			if cfg.ChainID != sim.DefaultConfig(1, nil).ChainID {
				o.paramUser = cfg.Accounts[2] // parameter updates: ended and resumed feeders in the exported params
			}
			o.run(12 + r.Intn(40))
		} else {
			prof := []string{"", "exit", "keys", "queues", "slash"}[i%6]
			if r.Intn(6) == 0 {
				prof = "power"
			}
			e.fam = "ledger:" + prof
			o := ops.DefaultLedgerOpts()
			o.NOps = 2 + r.Intn(4)
			o.ExtraOps = 1 + r.Intn(3)
			o.NStakers = 3 + r.Intn(5)
			o.Steps = 30 + r.Intn(120)
			o.Unbond = uint32(1 + r.Intn(3))
			if r.Intn(3) == 0 {
				o.MaxVals = uint32(1 + r.Intn(3))
			}
			o.Profile = prof
			o.HostileAmt = r.Intn(4) == 0
			o.NoDrain = r.Intn(5) > 0
			var err error
			w, err = ops.BuildLedgerWorld(j.Seed*977+3, i, o)
			if err != nil {
				res.Inconclusive = "world construction failed: " + err.Error()
				continue
			}
			w.KeepSnaps = false
			w.RunLedger(o)
		}
		if w.Dead {
			res.Counters["prefix-halted"]++
			continue
		}
		e.roundTrip(w, r)
		res.Histories++
		res.Steps += int64(len(w.Steps))
		res.Blocks += w.C.Height()
		if len(st.Samples) < 3 {
			st.Sample(map[string]interface{}{"history": hist, "family": e.fam, "exported_at_height": w.C.Height(), "state_features": e.feat})
		}
	}
	res.AddStats(st)
	return res
}

// features describes what the exported state contains (for the distinct classes).
func features(s *sim.Snap) string {
	var f []string
	if len(s.Ledger.Undel) > 0 {
		f = append(f, "pending-undelegations")
	}
	for _, h := range s.Ledger.Hold {
		if h > 0 {
			f = append(f, "holds")
			break
		}
	}
	if len(s.Dog.OptOuts) > 0 {
		f = append(f, "opt-outs-maturing")
	}
	if len(s.Dog.Prune) > 0 {
		f = append(f, "keys-to-prune")
	}
	if len(s.Dog.Mature) > 0 {
		f = append(f, "undelegations-to-mature")
	}
	if len(s.Op.Prev) > 0 {
		f = append(f, "replaced-keys")
	}
	if len(s.Op.Removal) > 0 {
		f = append(f, "key-removals")
	}
	for k := range s.Raw["operator"] {
		if len(k) > 0 && k[0] == 0x0b {
			f = append(f, "slash-records")
			break
		}
	}
	if strings.Contains(s.OracleMem, `"status":1`) {
		f = append(f, "open-oracle-rounds")
	}
	if len(f) == 0 {
		return "plain"
	}
	return strings.Join(f, "+")
}

func (e *eiRun) roundTrip(w *ops.World, r *rand.Rand) {
	c := w.C
	s := e.s
	// stop after a committed block
	w.EndBlock()
	if w.Dead || !c.Commit() {
		return
	}
	e.feat = features(w.Last)
	if os.Getenv("VERIF_C18_DEBUG") != "" {
		fmt.Println("C18-DEBUG features", e.feat, "undel", len(w.Last.Ledger.Undel), "hold", len(w.Last.Ledger.Hold), "optouts", len(w.Last.Dog.OptOuts), "prune", len(w.Last.Dog.Prune), "mature", len(w.Last.Dog.Mature), "prev", len(w.Last.Op.Prev))
	}
	stage := func(n string) { s.Case(e.fam + "|" + e.feat + "|" + n) }
	s.Eval("export")
	height := c.Height()
	committed := c.App.NewContext(true, tmproto.Header{Height: height, ChainID: c.ChainID, Time: c.Header.Time})
	origStores := c.DumpStores(committed, c18Modules)

	// (1) export
	var appState json.RawMessage
	if p := safely(func() {
		exp, err := c.App.ExportAppStateAndValidators(false, nil, nil)
		if err != nil {
			panic(err)
		}
		appState = exp.AppState
	}); p != "" {
		e.violate("export-failed", exoFrame(p), len(w.Steps), "ExportAppStateAndValidators failed: %s", trunc80(p))
		return
	}
	stage("exported")
	var docs map[string]json.RawMessage
	if err := json.Unmarshal(appState, &docs); err != nil {
		e.violate("export-failed", "undecodable", len(w.Steps), "exported app state is not a JSON object: %v", err)
		return
	}
	// (2) validation of the eight documents
	enc := c.TxCfg
	cdc := c.App.AppCodec()
	valid := true
	for _, m := range c18Modules {
		s.Eval("validate-exported-document")
		b, ok := exocoreapp.ModuleBasics[m].(module.HasGenesisBasics)
		if !ok {
			continue
		}
		var verr error
		if p := safely(func() { verr = b.ValidateGenesis(cdc, enc, docs[m]) }); p != "" {
			e.violate("exported-genesis-validation-panics", m, len(w.Steps), "ValidateGenesis of module %s panicked: %s", m, trunc80(p))
			valid = false
		} else if verr != nil {
			e.violate("exported-genesis-fails-validation", m+"|"+errClass(verr.Error()), len(w.Steps), "module %s: %s", m, trunc(verr.Error(), 300))
			valid = false
		}
	}
	if valid {
		stage("validated")
	}
	// (3) a fresh chain from the export
	var c2 *sim.Chain
	var ierr error
	c2, ierr = sim.NewChainFromState(c.ChainID, appState, c.Header.Time, height+1, c.Gen)
	if ierr != nil {
		site := "unknown"
		msg := ierr.Error()
		if i := strings.Index(msg, "\n"); i > 0 {
			site = exoFrame(msg[i:])
		}
		e.violate("import-failed", site+"|"+errClass(msg), len(w.Steps), "InitChain with the exported state failed: %s", trunc(msg, 300))
		return
	}
	stage("imported")
	// (4) store equality
	s.Eval("stores-after-import")
	newStores := c2.DumpStores(c2.Ctx(), c18Modules)
	exact := e.compareStores(origStores, newStores, "after-import", len(w.Steps))
	if os.Getenv("VERIF_C18_DEBUG") != "" {
		for _, st := range []string{"operator", "dogfood"} {
			for k, v := range origStores[st] {
				if v2, ok := newStores[st][k]; (!ok || string(v) != string(v2)) && len(k) > 0 && (k[0] == 0x01 || k[0] == 0x0f) {
					fmt.Printf("C18-DEBUG %s key %x\n  orig %x\n  new  %x\n", st, k, v, v2)
				}
			}
		}
	}
	// (5) second export
	if mm := moduleManager(c2.App); mm != nil {
		s.Eval("re-export")
		var docs2 map[string]json.RawMessage
		if p := safely(func() { docs2 = mm.ExportGenesisForModules(c2.Ctx(), cdc, c18Modules) }); p != "" {
			e.violate("re-export-failed", exoFrame(p), len(w.Steps), "exporting the re-imported chain failed: %s", trunc80(p))
		} else {
			for _, m := range c18Modules {
				if canonJSON(docs[m]) != canonJSON(docs2[m]) {
					e.violate("re-export-differs", m, len(w.Steps), "module %s: the document exported from the re-imported chain differs: %s", m, jsonDiff(docs[m], docs2[m]))
				}
			}
		}
	}
	// (6) continuation: meaningful only when the import reproduced the stores (otherwise every later difference is a
	// consequence of the ones already reported)
	if !exact {
		stage("continuation-skipped-import-not-exact")
		return
	}
	s.Eval("continuation")
	blocks := 14 + r.Intn(8)
	for b := 0; b < blocks; b++ {
		dt := w.Dt
		if r.Intn(6) == 0 {
			dt = 45 * time.Second
		}
		ok1 := c.BeginBlock(dt)
		ok2 := c2.BeginBlock(dt)
		if !ok1 || !ok2 {
			if ok1 != ok2 {
				e.violate("continuation-halts-on-one-chain", fmt.Sprintf("BeginBlock|original=%v|imported=%v", ok1, ok2), len(w.Steps), "block %d after the export: BeginBlock succeeded on the original: %v, on the re-imported chain: %v (%s)", b+1, ok1, ok2, lastPanic(c, c2))
			}
			return
		}
		eb1, ok1 := c.EndBlock()
		eb2, ok2 := c2.EndBlock()
		if !ok1 || !ok2 {
			if ok1 != ok2 {
				e.violate("continuation-halts-on-one-chain", fmt.Sprintf("EndBlock|original=%v|imported=%v", ok1, ok2), len(w.Steps), "block %d after the export: EndBlock succeeded on the original: %v, on the re-imported chain: %v (%s)", b+1, ok1, ok2, lastPanic(c, c2))
			}
			return
		}
		if valUpdDigest(eb1.ValidatorUpdates) != valUpdDigest(eb2.ValidatorUpdates) {
			e.violate("continuation-validator-updates-differ", "", len(w.Steps), "block %d after the export: validator updates differ (%d vs %d entries)", b+1, len(eb1.ValidatorUpdates), len(eb2.ValidatorUpdates))
			return
		}
		a, bb := c.DumpStores(c.Ctx(), c18Modules), c2.DumpStores(c2.Ctx(), c18Modules)
		if !e.compareStores(a, bb, fmt.Sprintf("continuation-block-%d", b+1), len(w.Steps)) {
			return
		}
		if !c.Commit() || !c2.Commit() {
			return
		}
	}
	stage("continued")
}

func lastPanic(cs ...*sim.Chain) string {
	for _, c := range cs {
		if n := len(c.Panics); n > 0 {
			return trunc80(c.Panics[n-1].Value) + " @ " + exoFrame(c.Panics[n-1].Stack)
		}
	}
	return ""
}

// compareStores reports the first differences per store/prefix; returns true when equal.
func (e *eiRun) compareStores(a, b sim.Raw, when string, step int) bool {
	var d []sim.Diff
	for _, x := range sim.DiffRaw(a, b, 400) {
		switch {
		case x.Store == "dogfood" && x.Prefix == "0c":
			// historical headers: node history, not restaking state; like the SDK's own staking module the export leaves them out
			continue
		case x.Store == "delegation" && x.Prefix == "06" && (x.Before == "0000000000000000" && x.After == "<absent>" || x.After == "0000000000000000" && x.Before == "<absent>"):
			// a stored hold count of zero and no entry mean the same
			continue
		}
		d = append(d, x)
	}
	if len(d) == 0 {
		return true
	}
	// one violation per (store, key prefix): they are independent export/import pairs
	seen := map[string]int{}
	first := map[string]sim.Diff{}
	var keys []string
	for _, x := range d {
		k := x.Store + ":" + x.Prefix
		if seen[k] == 0 {
			first[k] = x
			keys = append(keys, k)
		}
		seen[k]++
	}
	sort.Strings(keys)
	stageSite := "after-import"
	if strings.HasPrefix(when, "continuation") {
		stageSite = "continuation"
	}
	for _, k := range keys {
		x := first[k]
		kind := "changed"
		switch {
		case x.Before == "<absent>":
			kind = "only-in-imported"
		case x.After == "<absent>":
			kind = "missing-in-imported"
		}
		e.violate("module-store-differs", stageSite+"|"+k+"|"+kind, step, "%s: store %s prefix %s: %d differing key(s), first %q: original %s / re-imported %s", when, x.Store, x.Prefix, seen[k], x.Key, trunc(x.Before, 120), trunc(x.After, 120))
	}
	return false
}

func trunc(s string, n int) string {
	if len(s) > n {
		return s[:n] + "..."
	}
	return s
}

// errClass turns an error text into a stable slug: the first words of the message without addresses and numbers.
func errClass(msg string) string {
	m := strings.ToLower(msg)
	if i := strings.Index(m, "\n"); i > 0 {
		m = m[:i]
	}
	var words []string
	for _, w := range strings.FieldsFunc(m, func(r rune) bool { return !(r >= 'a' && r <= 'z' || r >= '0' && r <= '9' || r == '-' || r == '_') }) {
		if len(w) < 2 || strings.HasPrefix(w, "0x") || strings.HasPrefix(w, "exo1") || strings.ContainsAny(w, "0123456789") {
			continue
		}
		words = append(words, w)
		if len(words) == 6 {
			break
		}
	}
	if len(words) == 0 {
		return "other"
	}
	return strings.Join(words, "-")
}

func canonJSON(raw json.RawMessage) string {
	var v interface{}
	if json.Unmarshal(raw, &v) != nil {
		return string(raw)
	}
	bz, _ := json.Marshal(v)
	return string(bz)
}

// jsonDiff names the top-level fields of the two documents that differ.
func jsonDiff(a, b json.RawMessage) string {
	var ma, mb map[string]json.RawMessage
	if json.Unmarshal(a, &ma) != nil || json.Unmarshal(b, &mb) != nil {
		return "documents are not objects"
	}
	var out []string
	for k, va := range ma {
		if canonJSON(va) != canonJSON(mb[k]) {
			out = append(out, fmt.Sprintf("%s (%d vs %d bytes)", k, len(va), len(mb[k])))
		}
	}
	for k := range mb {
		if _, ok := ma[k]; !ok {
			out = append(out, k+" (only in re-export)")
		}
	}
	sort.Strings(out)
	return strings.Join(out, ", ")
}
