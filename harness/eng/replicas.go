package eng

import (
	"bufio"
	"encoding/json"
	"fmt"
	"os"
	"os/exec"
	"path/filepath"
	"strings"
	"sync"

	"verif/mon"
)

// replicas engine (C08): every "history" is a batch of histories of one workload family, executed by R replica
// processes (same binary, same job, separate OS processes with different GOMAXPROCS / time zone / restart schedule;
// Go randomises map iteration per process and per loop, so every replica samples another iteration schedule). Each
// replica writes the execution trace of ops/trace.go; the traces are compared line by line.
//
// A line has an input digest (what the harness fed in) and an output digest (what the application answered: result
// code / gas / data, validator and consensus-parameter updates, digest of the monitored stores, application hash).
// The workload generators read the chain state, so after the first differing OUTPUT the inputs differ too; the
// verdict is taken at the first differing line: same input, other output => the application is not deterministic
// (violation); other input after identical outputs => the harness's own generator is not deterministic (reported
// as inconclusive, never as a violation).
func init() {
	Register("replicas", runReplicas)
	RegisterPlan(Plan{Prop: "C08", Engine: "replicas", Quick: 30, Thorough: 450, Level: "exploration", MinCases: 15,
		Rule: "15 workload families (ledger default/slash/keys/power/queues/exit/invalid, oracle, oracle without the memory-tainting input classes, fees, authz, evmacct, live, live's unpriced-asset family, avs) x batches of 3-6 histories, each batch executed by 3 replica processes (GOMAXPROCS 16 / 1 / 3, time zones UTC / Asia/Kolkata / America/St_Johns, the second replica serving read-only dry runs (eth_call + eth_estimateGas, or the Simulate service) of every transaction before it is delivered, the third replica restarting the application object over the same database every 7 blocks where the family has no recorded restart finding); thorough adds a replica built with the race detector. Compared per step: transaction result code / gas wanted / gas used / data, validator updates, consensus-parameter updates, digest of all monitored stores, application hash of every block. Distinct = <family, replica environment> pairs whose traces were compared in full, plus the number of compared lines."})
}

type replicaFamily struct {
	name    string
	prop    string
	engine  string
	variant string
	batch   int
	restart bool
}

var replicaFamilies = []replicaFamily{
	{"ledger", "C01", "ledger", "", 4, true},
	{"ledger:slash", "C04", "ledger", "slash", 4, true},
	{"ledger:keys", "C07", "ledger", "keys", 4, true},
	{"ledger:power", "C05", "ledger", "power", 4, true},
	{"ledger:queues", "C16", "ledger", "queues", 4, true},
	{"ledger:exit", "C03", "ledger", "exit", 4, true},
	{"ledger:invalid", "C09", "ledger", "invalid", 4, false},
	{"oracle", "C12", "oracle", "", 6, false},
	{"fees", "C17", "fees", "", 6, true},
	{"authz", "C10", "authz", "", 3, false},
	{"evmacct", "C19", "evmacct", "", 4, true},
	{"live", "C11", "live", "", 4, false},
	{"avs", "C20", "avs", "", 60, true},
	{"live:unpriced", "C11", "live", "unpriced", 3, false},
	{"oracle:notaint", "C12", "oracle", "notaint", 6, true},
}

type replicaEnv struct {
	name    string
	env     []string
	restart bool
	race    bool
}

func runReplicas(j Job) *Result {
	res := NewResult()
	st := mon.NewStats("C08")
	self, err := os.Executable()
	if err != nil {
		res.Inconclusive = "cannot locate the runner binary: " + err.Error()
		return res
	}
	envs := []replicaEnv{
		{name: "GOMAXPROCS=16,TZ=UTC", env: []string{"GOMAXPROCS=16", "TZ=UTC"}},
		{name: "GOMAXPROCS=1,TZ=Asia/Kolkata,serves-dry-run-queries", env: []string{"GOMAXPROCS=1", "TZ=Asia/Kolkata", "VERIF_QUERY_NOISE=1"}},
		{name: "GOMAXPROCS=3,TZ=America/St_Johns,restart-every-7-blocks", env: []string{"GOMAXPROCS=3", "TZ=America/St_Johns"}, restart: true},
	}
	raceBin := os.Getenv("VERIF_RACE_RUNNER")
	if raceBin != "" && j.Tier == "thorough" {
		envs = append(envs, replicaEnv{name: "race-detector-build", env: []string{"GOMAXPROCS=8"}, race: true})
	}
	for i := j.From; i < j.To; i++ {
		fam := replicaFamilies[i%len(replicaFamilies)]
		round := i / len(replicaFamilies)
		hist := fmt.Sprintf("replicas:%d:%d", j.Seed, i)
		scratch := filepath.Join(j.Scratch, fmt.Sprintf("rep-%d", i))
		os.MkdirAll(scratch, 0o755)
		job := Job{Prop: fam.prop, Engine: fam.engine, Tier: "quick", Seed: j.Seed*1000 + int64(round), From: round * fam.batch, To: (round + 1) * fam.batch, Variant: fam.variant}
		traces := make([]string, len(envs))
		names := make([]string, len(envs))
		failed := false
		var wg sync.WaitGroup
		var mu sync.Mutex
		for k, e := range envs {
			wg.Add(1)
			go func(k int, e replicaEnv) {
				defer wg.Done()
				bin := self
				if e.race {
					bin = raceBin
				}
				tr := filepath.Join(scratch, fmt.Sprintf("trace-%d.txt", k))
				rj := job
				rj.Out = filepath.Join(scratch, fmt.Sprintf("res-%d.json", k))
				rj.Scratch = scratch
				jf := filepath.Join(scratch, fmt.Sprintf("job-%d.json", k))
				bz, _ := json.Marshal(rj)
				os.WriteFile(jf, bz, 0o644)
				cmd := exec.Command("timeout", "-s", "QUIT", "3000", bin, "-child", "-job", jf)
				cmd.Env = append(os.Environ(), e.env...)
				cmd.Env = append(cmd.Env, "VERIF_TRACE="+tr)
				if e.restart && fam.restart {
					cmd.Env = append(cmd.Env, "VERIF_RESTART_EVERY=7")
				} else {
					cmd.Env = append(cmd.Env, "VERIF_RESTART_EVERY=0")
				}
				racelog := filepath.Join(scratch, fmt.Sprintf("race-%d", k))
				if e.race {
					cmd.Env = append(cmd.Env, "GORACE=halt_on_error=0 log_path="+racelog)
				}
				logf, _ := os.Create(filepath.Join(scratch, fmt.Sprintf("log-%d.txt", k)))
				cmd.Stdout, cmd.Stderr = logf, logf
				err := cmd.Run()
				logf.Close()
				mu.Lock()
				defer mu.Unlock()
				if err != nil {
					res.Notes = append(res.Notes, fmt.Sprintf("%s: replica %s of family %s failed: %v", hist, e.name, fam.name, err))
					res.Inconclusive = fmt.Sprintf("replica process failed (%s, %s): %v", fam.name, e.name, err)
					failed = true
					return
				}
				if e.race {
					n := countRaces(racelog)
					st.Eval("race-detector-replica")
					res.Counters["race-detector:replica-runs"]++
					if n > 0 {
						st.Violate("data-race", fam.name, hist, 0, "the race detector reported %d data race(s) in family %s (log kept in the replay file's scratch directory: %s.*)", n, fam.name, racelog)
					}
				}
				traces[k] = tr
				names[k] = e.name
				if sub, err := ReadResult(rj.Out); err == nil {
					for _, c := range []string{"dry-run-queries", "dry-run-queries-answered-ok"} {
						res.Counters[c] += sub.Counters[c]
					}
				}
			}(k, e)
		}
		wg.Wait()
		if failed {
			continue
		}
		lines0, err := readLines(traces[0])
		if err != nil || len(lines0) == 0 {
			res.Inconclusive = "empty reference trace for " + fam.name
			continue
		}
		for k := 1; k < len(traces); k++ {
			lk, _ := readLines(traces[k])
			st.Eval("replica-pair")
			what, at := compareTraces(lines0, lk)
			res.Counters["compared-trace-lines"] += int64(minInt(len(lines0), len(lk)))
			switch what {
			case "":
				st.Case(fam.name + "|" + names[k])
			case "output":
				site := fam.name
				if strings.Contains(names[k], "restart") && fam.restart {
					site += "|restarting-replica"
				}
				st.Violate("replica-diverges", site, hist, at, "family %s: replica [%s] answers differently from replica [%s] at trace line %d with identical inputs:\n  %s\n  %s", fam.name, names[k], names[0], at, safeLine(lines0, at), safeLine(lk, at))
			case "memory":
				st.Case(fam.name + "|" + names[k])
				res.Counters["oracle-memory-digest-differs-without-visible-result"]++
			default:
				res.Inconclusive = fmt.Sprintf("the workload generator of family %s is not deterministic (inputs differ at line %d although all earlier outputs agree): %s / %s", fam.name, at, safeLine(lines0, at), safeLine(lk, at))
			}
		}
		res.Histories++
		res.Steps += int64(len(lines0))
		os.RemoveAll(scratch)
	}
	res.AddStats(st)
	return res
}

func safeLine(l []string, i int) string {
	if i < len(l) {
		return l[i]
	}
	return "<end of trace>"
}

func readLines(p string) ([]string, error) {
	f, err := os.Open(p)
	if err != nil {
		return nil, err
	}
	defer f.Close()
	var out []string
	sc := bufio.NewScanner(f)
	sc.Buffer(make([]byte, 1<<20), 1<<20)
	for sc.Scan() {
		out = append(out, sc.Text())
	}
	return out, sc.Err()
}

// compareTraces returns ("", 0) if equal; ("output", i) if line i has the same input but another output;
// ("memory", i) if only the memory digest differs somewhere; ("input", i) otherwise.
func compareTraces(a, b []string) (string, int) {
	mem := -1
	n := minInt(len(a), len(b))
	for i := 0; i < n; i++ {
		if a[i] == b[i] {
			continue
		}
		fa, fb := strings.Fields(a[i]), strings.Fields(b[i])
		if len(fa) < 5 || len(fb) < 5 {
			return "input", i
		}
		if fa[0] != fb[0] || fa[1] != fb[1] || fa[2] != fb[2] || fa[3] != fb[3] {
			return "input", i
		}
		if fa[4] != fb[4] {
			return "output", i
		}
		if mem < 0 {
			mem = i
		}
	}
	if len(a) != len(b) {
		return "input", n
	}
	if mem >= 0 {
		return "memory", mem
	}
	return "", 0
}

func countRaces(prefix string) int {
	m, _ := filepath.Glob(prefix + ".*")
	n := 0
	for _, f := range m {
		bz, err := os.ReadFile(f)
		if err == nil {
			n += strings.Count(string(bz), "WARNING: DATA RACE")
		}
	}
	return n
}
