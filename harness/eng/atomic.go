package eng

import (
	"bytes"
	"errors"
	"fmt"
	"math/rand"
	"strings"
	"time"

	sdkmath "cosmossdk.io/math"

	delegationkeeper "github.com/ExocoreNetwork/exocore/x/delegation/keeper"
	operatorkeeper "github.com/ExocoreNetwork/exocore/x/operator/keeper"
	operatortypes "github.com/ExocoreNetwork/exocore/x/operator/types"

	"verif/mon"
	"verif/ops"
	"verif/sim"
)

// atomic engine (C09).
//
//	part A (first sentence): ledger histories of profile `invalid` (two fifths through a proxy gateway contract that
//	  may revert / burn gas / write storage after the precompile call) and oracle histories, every reported failure
//	  judged by the generic "no trace" monitor (store bytes + oracle memory);
//	part B (second sentence): fault injection (hook H4) at every position of the three block-processing loops that
//	  the code protects with a cache context.
func init() {
	Register("atomic", runAtomic)
	RegisterPlan(Plan{Prop: "C09", Engine: "atomic", Quick: 96, Thorough: 2400, Level: "fault_enumeration", MinCases: 12,
		Rule: "Part A: per history ~120 operations of which ~40 % are invalid in exactly one way (45 invalid-input classes over the assets / delegation / reward / AVS precompile methods, operator and delegation messages, Slash and NST-update keeper entry points), issued in states reached by the ledger workload; 40 % of these histories route every gateway call through a hand-assembled proxy contract that returns, reverts, burns all gas or writes storage after the precompile call; every third history is an oracle history (28 price-transaction classes). Every step that reports failure is compared byte-for-byte over the eight restaking stores and the oracle memory dump. Part B: every fourth job index runs the three H4 scenarios and enumerates EVERY position k of the loop (k-th matured undelegation of a block, k-th operator of an epoch-end voting-power update across several AVSs, the slash of a double-sign evidence) as the failing item. Distinct = ⟨entry point/route, failure class⟩ that actually reported failure, plus ⟨H4 site, position, #items⟩."})
}

func runAtomic(j Job) *Result {
	res := NewResult()
	c09 := mon.NewStats("C09")
	for i := j.From; i < j.To; i++ {
		switch {
		case i%3 == 2:
			sub := runOracle(Job{Prop: "C09", Engine: "oracle", Tier: j.Tier, Seed: j.Seed + 7, From: i, To: i + 1, Verbose: j.Verbose})
			mergeC09(res, c09, sub)
		default:
			sub := runLedger(Job{Prop: "C09", Engine: "ledger", Variant: "invalid", Tier: j.Tier, Seed: j.Seed, From: i, To: i + 1, Verbose: j.Verbose})
			mergeC09(res, c09, sub)
		}
		if i%4 == 0 {
			hist := fmt.Sprintf("atomic:%d:%d", j.Seed, i)
			r := rand.New(rand.NewSource(j.Seed*86028121 + int64(i)))
			h4Undelegations(c09, hist, r)
			h4VotingPower(c09, hist, r)
			h4Slash(c09, hist, r)
			res.Counters["h4-scenario-sets"]++
		}
	}
	res.AddStats(c09)
	return res
}

func mergeC09(res *Result, c09 *mon.Stats, sub *Result) {
	if s, ok := sub.Stats["C09"]; ok {
		c09.Merge(mon.FromJSON(s))
	}
	res.Histories += sub.Histories
	res.Steps += sub.Steps
	res.Blocks += sub.Blocks
	for k, v := range sub.Counters {
		res.Counters[k] += v
	}
	res.Notes = append(res.Notes, sub.Notes...)
	if sub.Inconclusive != "" {
		res.Inconclusive = sub.Inconclusive
	}
}

var errInjected = errors.New("verif: injected failure")

// arm makes the n-th call (1-based) of site fail once; returns a counter of calls seen.
func arm(site string, n int) *int {
	calls := 0
	f := func(s string) error {
		if s != site {
			return nil
		}
		calls++
		if calls == n {
			return errInjected
		}
		return nil
	}
	delegationkeeper.VerifFailHook = f
	operatorkeeper.VerifFailHook = f
	return &calls
}

func disarm() {
	delegationkeeper.VerifFailHook = nil
	operatorkeeper.VerifFailHook = nil
}

func subRaw(r sim.Raw, stores ...string) sim.Raw {
	out := sim.Raw{}
	for _, s := range stores {
		out[s] = r[s]
	}
	return out
}

// ---- scenario A: matured undelegations in delegation.EndBlock --------------------------------------------

func buildUndelegationBlock(r *rand.Rand) (*ops.World, int, bool) {
	cfg := sim.DefaultConfig(2, []int64{100, 200})
	c, err := sim.NewChain(cfg)
	if err != nil {
		return nil, 0, false
	}
	w := ops.NewWorld(c, r)
	w.Dt = 5 * time.Second
	if !w.Start() {
		return nil, 0, false
	}
	// an operator that never opts in: undelegations from it are not held
	ex := &ops.Oper{Acct: cfg.Accounts[5]}
	w.Opers = append(w.Opers, ex)
	if st := w.RegisterOperator(ex); !st.Ack {
		return nil, 0, false
	}
	n := 2 + r.Intn(4)
	var stakers []*ops.Staker
	for k := 0; k < n; k++ {
		s := w.AddStaker(101, sim.NewAccount(fmt.Sprintf("h4s%d", k)).Eth.Bytes())
		amt := sdkmath.NewInt(int64(1000 + r.Intn(100000)))
		if st := w.Deposit(s, w.Assets[0], amt); !st.Ack {
			return nil, 0, false
		}
		if st := w.Delegate(s, w.Assets[0], ex, amt); !st.Ack {
			return nil, 0, false
		}
		stakers = append(stakers, s)
	}
	w.Advance(w.Dt)
	for _, s := range stakers {
		pos := ops.Position(w.Last.Ledger, s.ID, w.Assets[0].ID, ex.Addr())
		if st := w.Undelegate(s, w.Assets[0], ex, pos.QuoRaw(int64(1+r.Intn(3))).AddRaw(0)); !st.Ack {
			return nil, 0, false
		}
	}
	// up to (not including) the maturity block's EndBlock
	for k := 0; k < 10 && !w.Dead; k++ {
		w.Advance(w.Dt)
	}
	return w, n, !w.Dead
}

func h4Undelegations(s *mon.Stats, hist string, r *rand.Rand) {
	seed := r.Int63()
	probe, n, ok := buildUndelegationBlock(rand.New(rand.NewSource(seed)))
	if !ok || len(probe.Last.Ledger.Undel) != n {
		return
	}
	for k := 1; k <= n; k++ {
		w, _, ok := buildUndelegationBlock(rand.New(rand.NewSource(seed)))
		if !ok {
			continue
		}
		pre := w.Last
		calls := arm("delegation.EndBlock.afterStakerUpdate", k)
		st := w.EndBlock()
		disarm()
		s.Eval("h4-undelegation")
		s.Case(fmt.Sprintf("h4|delegation.EndBlock|position=%d|items=%d", k, n))
		if w.Dead || st.Panic != "" {
			s.Violate("h4-item-failure-halts-block", "delegation.EndBlock", hist, k, "EndBlock panicked with an injected failure at record %d of %d: %s", k, n, st.Panic)
			continue
		}
		if *calls < n {
			s.Violate("h4-item-failure-stops-others", "delegation.EndBlock", hist, k, "only %d of %d matured records were processed after the injected failure at position %d", *calls, n, k)
		}
		post := w.Last
		// exactly one record remains; its rows are byte-identical to before the block
		if len(post.Ledger.Undel) != 1 {
			s.Violate("h4-wrong-number-of-items-processed", "delegation.EndBlock", hist, k, "%d records remain after failing item %d of %d (want 1)", len(post.Ledger.Undel), k, n)
			continue
		}
		for key, rec := range post.Ledger.Undel {
			rows := []string{"S:" + rec.StakerID + "/" + rec.AssetID, "D:" + rec.StakerID + "/" + rec.AssetID + "/" + rec.OperatorAddr, "U:" + key}
			for _, d := range sim.DiffRaw(subRaw(pre.Raw, "assets", "delegation"), subRaw(post.Raw, "assets", "delegation"), 0) {
				if strings.Contains(d.Key, rec.StakerID) {
					s.Violate("h4-partial-effect", "delegation.EndBlock", hist, k, "failed record %s left a partial effect on %s/%s (rows %v)", key, d.Store, d.Key, rows)
				}
			}
		}
		// the chain goes on
		w.NextBlock(w.Dt)
		if !w.Advance(w.Dt) {
			s.Violate("h4-item-failure-halts-block", "delegation.EndBlock|later", hist, k, "chain halted after the injected failure")
		}
	}
}

// ---- scenario B: per-AVS voting power update at an epoch end ---------------------------------------------

func buildVotingPowerBlock(r *rand.Rand) (*ops.World, []string, bool) {
	cfg := sim.DefaultConfig(3, []int64{100, 200, 300})
	c, err := sim.NewChain(cfg)
	if err != nil {
		return nil, nil, false
	}
	w := ops.NewWorld(c, r)
	w.Dt = 10 * time.Second
	if !w.Start() {
		return nil, nil, false
	}
	var avss []string
	for k := 0; k < 2; k++ {
		owner := cfg.Accounts[4+k]
		spec := ops.AVSSpec{Owner: owner, Name: fmt.Sprintf("h4avs%d", k), Assets: []string{w.Assets[0].ID}, MinSelf: 0, EpochID: "minute", Unbonding: 2, TaskAddr: sim.NewAccount(fmt.Sprintf("h4task%d", k)).Eth}
		if st := w.RegisterAVS(spec); !st.Ack {
			return nil, nil, false
		}
		avss = append(avss, owner.Eth.String())
		for _, o := range w.Opers {
			if st := w.OptIn(o, owner.Eth.String(), nil); !st.Ack {
				return nil, nil, false
			}
		}
	}
	// first epoch end gives every AVS its initial values
	for k := 0; k < 8 && !w.Dead; k++ {
		w.Advance(w.Dt)
	}
	// change the stakes so that the next update has something to write
	s := w.AddStaker(101, sim.NewAccount("h4vp").Eth.Bytes())
	for _, o := range w.Opers {
		amt := sdkmath.NewInt(int64(1_000_000 * (1 + r.Intn(50))))
		if st := w.Deposit(s, w.Assets[0], amt); st.Ack {
			w.Delegate(s, w.Assets[0], o, amt)
		}
	}
	// move to the last block of the epoch: the next BeginBlock closes it
	for k := 0; k < 12 && !w.Dead; k++ {
		e := w.Last.Epochs["minute"]
		end := e.CurrentEpochStartTime.Add(e.Duration)
		if w.C.Header.Time.Add(w.Dt).After(end) {
			break
		}
		w.Advance(w.Dt)
	}
	return w, avss, !w.Dead
}

func usdOf(raw sim.Raw, avs string) map[string]string {
	out := map[string]string{}
	for k, v := range raw["operator"] {
		if len(k) > 1 && (k[0] == operatortypes.KeyPrefixUSDValueForOperator[0] || k[0] == operatortypes.KeyPrefixUSDValueForAVS[0]) && strings.HasPrefix(k[1:], avs) {
			out[k] = string(v)
		}
	}
	return out
}

func sameMap(a, b map[string]string) bool {
	if len(a) != len(b) {
		return false
	}
	for k, v := range a {
		if b[k] != v {
			return false
		}
	}
	return true
}

func h4VotingPower(s *mon.Stats, hist string, r *rand.Rand) {
	seed := r.Int63()
	// reference: no injection
	ref, avss, ok := buildVotingPowerBlock(rand.New(rand.NewSource(seed)))
	if !ok {
		return
	}
	all := append([]string{ref.AVSAddr}, avss...)
	refPre := ref.Last
	ref.EndBlock()
	probe := arm("operator.UpdateVotingPower.afterOperator", 1<<30)
	ref.NextBlock(ref.Dt)
	total := *probe
	disarm()
	refPost := ref.Last
	if ref.Dead || total < 2 {
		return
	}
	changed := 0
	for _, a := range all {
		if !sameMap(usdOf(refPre.Raw, a), usdOf(refPost.Raw, a)) {
			changed++
		}
	}
	if changed < 2 {
		return // nothing to tell apart
	}
	for k := 1; k <= total; k++ {
		w, _, ok := buildVotingPowerBlock(rand.New(rand.NewSource(seed)))
		if !ok {
			continue
		}
		pre := w.Last
		w.EndBlock()
		arm("operator.UpdateVotingPower.afterOperator", k)
		st := w.NextBlock(w.Dt)
		disarm()
		s.Eval("h4-voting-power")
		s.Case(fmt.Sprintf("h4|operator.UpdateVotingPower|position=%d|calls=%d", minInt(k, 9), minInt(total, 9)))
		if w.Dead || st.Panic != "" {
			s.Violate("h4-item-failure-halts-block", "operator.UpdateVotingPower", hist, k, "BeginBlock panicked with an injected failure at operator call %d of %d: %s", k, total, st.Panic)
			continue
		}
		post := w.Last
		failed, updated := 0, 0
		for _, a := range all {
			got := usdOf(post.Raw, a)
			switch {
			case sameMap(got, usdOf(refPost.Raw, a)):
				updated++
			case sameMap(got, usdOf(pre.Raw, a)):
				failed++
			default:
				s.Violate("h4-partial-effect", "operator.UpdateVotingPower", hist, k, "AVS %s: after an injected failure at operator call %d its values are neither the old ones nor the fully updated ones", a, k)
			}
		}
		if failed+updated == len(all) && failed > 1 {
			// values equal before and after for an AVS whose update changes nothing count as updated; more than
			// one *visibly* failed AVS means the failure of one item stopped another
			s.Violate("h4-item-failure-stops-others", "operator.UpdateVotingPower", hist, k, "%d AVSs kept their old values after one injected failure (call %d)", failed, k)
		}
	}
}

// ---- scenario C: the slash triggered by double-sign evidence in BeginBlock --------------------------------

func h4Slash(s *mon.Stats, hist string, r *rand.Rand) {
	cfg := sim.DefaultConfig(3, []int64{100, 200, 300})
	c, err := sim.NewChain(cfg)
	if err != nil {
		return
	}
	w := ops.NewWorld(c, r)
	w.Dt = 10 * time.Second
	if !w.Start() {
		return
	}
	// a delegation changes operator 1's power at the next epoch end (this also registers its consensus public key
	// with x/slashing), and a pending undelegation gives the slash a second pass to work on
	st0 := w.AddStaker(101, sim.NewAccount("h4sl").Eth.Bytes())
	amt := sdkmath.NewInt(int64(5_000_000 + r.Intn(50_000_000)))
	if st := w.Deposit(st0, w.Assets[0], amt); st.Ack {
		w.Delegate(st0, w.Assets[0], w.Opers[1], amt)
	}
	for k := 0; k < 9 && !w.Dead; k++ {
		w.Advance(w.Dt)
	}
	w.Undelegate(st0, w.Assets[0], w.Opers[1], sdkmath.NewInt(1_000_000))
	// operator 1's validator stops signing; x/slashing slashes it for downtime in some BeginBlock
	absent := fmt.Sprintf("%X", w.Opers[1].Keys[0].ConsAddr().Bytes())
	c.Absent[absent] = true
	for k := 0; k < 14 && !w.Dead; k++ {
		w.EndBlock()
		pre := w.Last
		calls := arm("operator.SlashAssets.betweenPasses", 1)
		st := w.NextBlock(w.Dt)
		disarm()
		if w.Dead || st.Panic != "" {
			s.Eval("h4-slash")
			s.Violate("h4-item-failure-halts-block", "operator.SlashAssets", hist, k, "BeginBlock panicked with an injected slash failure: %s", st.Panic)
			return
		}
		if *calls == 0 {
			continue
		}
		s.Eval("h4-slash")
		s.Case("h4|operator.SlashAssets|downtime-slash-in-BeginBlock")
		post := w.Last
		if d := sim.DiffRaw(subRaw(pre.Raw, "assets", "delegation"), subRaw(post.Raw, "assets", "delegation"), 3); len(d) > 0 {
			s.Violate("h4-partial-effect", "operator.SlashAssets", hist, k, "a slash that failed between its two passes changed the ledger: %+v", d)
		}
		for key, v2 := range post.Raw["operator"] {
			if len(key) > 0 && key[0] == operatortypes.KeyPrefixOperatorSlashInfo[0] {
				if v1, ok := pre.Raw["operator"][key]; !ok || !bytes.Equal(v1, v2) {
					s.Violate("h4-partial-effect", "operator.SlashAssets|record", hist, k, "a failed slash stored a slash record %s", key[1:])
				}
			}
		}
		if !w.Advance(w.Dt) || !w.Advance(w.Dt) {
			s.Violate("h4-item-failure-halts-block", "operator.SlashAssets|later", hist, k, "chain halted after the injected slash failure")
		}
		return
	}
	s.Case("h4|operator.SlashAssets|not-reached")
}
