package eng

import (
	"crypto/sha256"
	"encoding/hex"
	"fmt"
	"math/rand"
	"os"
	"strings"
	"time"

	abci "github.com/cometbft/cometbft/abci/types"

	oraclekeeper "github.com/ExocoreNetwork/exocore/x/oracle/keeper"

	"verif/mon"
	"verif/ops"
	"verif/sim"
)

// oracle14 engine (C14): the history of the oracle workload is first executed without stopping (reference trace);
// then, for every block height h of the history, a second instance replays blocks 1..h, is restarted (fresh
// application object over the same database, oracle process state reset by hook H2), continues with the same
// blocks and must reproduce the reference trace. Multi-restart variants restart at several heights.
func init() {
	Register("oracle14", runOracle14)
	RegisterPlan(Plan{Prop: "C14", Engine: "oracle14", Quick: 40, Thorough: 600, Level: "fault_enumeration", MinCases: 8,
		Rule: "histories of the oracle workload (40-60 blocks, including accepted and refused parameter updates; see C12/C13) recorded as per-block transaction bytes; for EVERY height h of each history a replica replays 1..h, restarts (fresh ExocoreApp over the same DB + reset of the oracle's package-level state), continues, and its per-block trace (app hash, per-tx code/gas/data, validator updates, oracle store digest, normalised in-memory digest H1) is compared with the uninterrupted run; every 4th history additionally restarts at 2-4 heights in one replica. Distinct = ⟨round phase at the restart point (mid-window / window end / idle / right after finalisation / right after a validator-set change / right after a parameter change), #feeders with an open round⟩."})
}

type blockScript struct {
	dt  time.Duration
	txs [][]byte
}

type txTrace struct {
	code uint32
	gas  int64
	data string
}

type blockTrace struct {
	height   int64
	appHash  string
	txs      []txTrace
	valUpd   string
	storeDig string
	memBegin string // normalised H1 digest after BeginBlock
	memEnd   string // normalised H1 digest after EndBlock
	phase    string
	logs     []string
	memRaw   string // debug only
}

func hashBytes(b []byte) string {
	h := sha256.Sum256(b)
	return hex.EncodeToString(h[:8])
}

func valUpdDigest(u []abci.ValidatorUpdate) string {
	h := sha256.New()
	for _, x := range u {
		bz, _ := x.Marshal()
		h.Write(bz)
	}
	return hex.EncodeToString(h.Sum(nil)[:8])
}

func oracleStoreDigest(c *sim.Chain) string {
	raw := c.DumpStores(c.Ctx(), []string{"oracle"})
	return raw.Digest()[:16]
}

// replayBlock executes one scripted block on c and returns its trace.
func replayBlock(c *sim.Chain, b blockScript) (blockTrace, bool) {
	var t blockTrace
	if !c.BeginBlock(b.dt) {
		return t, false
	}
	t.height = c.Height()
	t.memBegin = hashBytes([]byte(normDigest(string(oraclekeeper.VerifOracleDump()))))
	for _, tx := range b.txs {
		res, ok := c.DeliverTx(tx)
		if !ok {
			return t, false
		}
		t.txs = append(t.txs, txTrace{code: res.Code, gas: res.GasUsed, data: hashBytes(res.Data)})
		t.logs = append(t.logs, res.Log)
	}
	eb, ok := c.EndBlock()
	if !ok {
		return t, false
	}
	t.valUpd = valUpdDigest(eb.ValidatorUpdates)
	t.storeDig = oracleStoreDigest(c)
	t.memEnd = hashBytes([]byte(normDigest(string(oraclekeeper.VerifOracleDump()))))
	if os.Getenv("VERIF_C14_DEBUG") != "" {
		t.memRaw = normDigest(string(oraclekeeper.VerifOracleDump()))
	}
	if !c.Commit() {
		return t, false
	}
	t.appHash = hex.EncodeToString(c.LastAppHash)
	return t, true
}

func diffTrace(a, b blockTrace) (string, string) {
	switch {
	case a.appHash != b.appHash && sameTxs(a.txs, b.txs) && a.storeDig == b.storeDig && a.valUpd == b.valUpd:
		return "app-hash", fmt.Sprintf("app hash %s vs %s", a.appHash[:16], b.appHash[:16])
	case !sameTxs(a.txs, b.txs):
		for i := range a.txs {
			if i >= len(b.txs) || a.txs[i] != b.txs[i] {
				lb := ""
				if i < len(b.logs) {
					lb = b.logs[i]
				}
				return "tx-result", fmt.Sprintf("tx %d: %+v (%s) vs %+v (%s)", i, a.txs[i], trunc80(a.logs[i]), safeTx(b.txs, i), trunc80(lb))
			}
		}
		return "tx-result", "different number of results"
	case a.storeDig != b.storeDig:
		return "oracle-store", fmt.Sprintf("oracle store digest %s vs %s", a.storeDig, b.storeDig)
	case a.valUpd != b.valUpd:
		return "validator-updates", "validator updates differ"
	case a.appHash != b.appHash:
		return "app-hash", "app hash differs"
	}
	return "", ""
}

func safeTx(t []txTrace, i int) txTrace {
	if i < len(t) {
		return t[i]
	}
	return txTrace{}
}

func sameTxs(a, b []txTrace) bool {
	if len(a) != len(b) {
		return false
	}
	for i := range a {
		if a[i] != b[i] {
			return false
		}
	}
	return true
}

func runOracle14(j Job) *Result {
	res := NewResult()
	st := mon.NewStats("C14")
	for i := j.From; i < j.To; i++ {
		hist := fmt.Sprintf("oracle14:%d:%d", j.Seed, i)
		seedFor := func() *rand.Rand { return rand.New(rand.NewSource(j.Seed*49979687 + int64(i))) }
		r := seedFor()
		cfg, feeders, maxNonce := oracleConfig(r)
		c, err := sim.NewChain(cfg)
		if err != nil {
			res.Inconclusive = "chain construction failed: " + err.Error()
			continue
		}
		w := ops.NewWorld(c, r)
		w.Dt = 7 * time.Second
		for k := 0; k < 3; k++ {
			w.AddStaker(101, sim.NewAccount(fmt.Sprintf("ostaker%d", k)).Eth.Bytes())
		}
		o := &oracleRun{w: w, r: r, hist: hist, c12: mon.NewStats("C12"), c13: mon.NewStats("C13"), feeders: feeders, maxNonce: maxNonce,
			cur: map[uint64]*oRound{}, closed: map[uint64]uint64{}, outsider: sim.NewConsKey("outsider"), tainted: map[uint64]string{}}
		for _, op := range w.Opers {
			if len(op.Keys) > 0 {
				o.vals = append(o.vals, op.Keys[0])
			}
		}
		o.noTaintClasses = i%10 < 7
		if cfg.ChainID != sim.DefaultConfig(1, nil).ChainID {
			o.paramUser = cfg.Accounts[2]
		}
		nBlocks := 36 + r.Intn(20)
		o.run(nBlocks)
		if w.Dead {
			res.Notes = append(res.Notes, hist+": reference run halted")
			res.Counters["dead-histories"]++
			continue
		}
		// the script: tx bytes per block, block spacing
		var script []blockScript
		var taintBlock int64 = -1
		cur := blockScript{dt: w.Dt}
		phases := map[int64]string{}
		for _, s := range w.Steps {
			switch s.Kind {
			case "begin_block":
				script = append(script, cur)
				d, _ := time.ParseDuration(s.P["dt"])
				cur = blockScript{dt: d}
			case "end_block":
			default:
				if s.TxBytes != nil && s.Via != "checktx" {
					cur.txs = append(cur.txs, s.TxBytes)
				}
			}
		}
		for fid, cls := range o.tainted {
			_ = fid
			_ = cls
		}
		if o.firstTaintHeight > 0 {
			taintBlock = o.firstTaintHeight
		}
		// reference trace: uninterrupted replay on a fresh instance (also validates that the script reproduces)
		ref, ok := runScript(cfg, script, nil, phases)
		if !ok {
			st.Violate("reference-replay-halted", "", hist, 0, "the uninterrupted replay of the recorded script halted")
			continue
		}
		H := len(script)
		restartSets := [][]int{}
		for h := 1; h < H; h++ {
			restartSets = append(restartSets, []int{h})
		}
		if i%4 == 0 {
			for k := 0; k < 3; k++ {
				n := 2 + r.Intn(3)
				var hs []int
				last := 0
				for x := 0; x < n; x++ {
					last += 1 + r.Intn(H/n)
					if last < H {
						hs = append(hs, last)
					}
				}
				if len(hs) >= 2 {
					restartSets = append(restartSets, hs)
				}
			}
		}
		for _, hs := range restartSets {
			got, ok := runScript(cfg, script, hs, nil)
			st.Eval("restart-point")
			phase := ref[hs[0]-1].phase
			st.Case(fmt.Sprintf("restarts=%d|%s", minInt(len(hs), 3), phase))
			if !ok {
				st.Violate("restarted-node-halts", phase, hist, hs[0], "replica restarted at %v halted", hs)
				continue
			}
			memOnly := false
			for b := hs[0]; b < H; b++ {
				what, detail := diffTrace(ref[b], got[b])
				if what == "" {
					if ref[b].memEnd != got[b].memEnd {
						if !memOnly && os.Getenv("VERIF_C14_DEBUG") == "mem" {
							if f, e := os.OpenFile("/var/tmp/c14mem.log", os.O_APPEND|os.O_CREATE|os.O_WRONLY, 0o644); e == nil {
								fmt.Fprintf(f, "MEMDIFF %s restart %v block %d\n--- ref\n%s\n--- got\n%s\n", hist, hs, b+1, ref[b].memRaw, got[b].memRaw)
								f.Close()
							}
						}
						memOnly = true
					}
					continue
				}
				site := what
				if taintBlock >= 0 && int64(b+1) >= taintBlock {
					site += "|after-failed-tx-mutated-oracle-memory"
				}
				if os.Getenv("VERIF_C14_DEBUG") != "" {
					fmt.Printf("DIVERGE restart %v block %d: %s %s\n  ref: %+v\n  got: %+v\n", hs, b+1, what, detail, ref[b], got[b])
					dumpStoreDiff(cfg, script, hs, b+1)
				}
				st.Violate("restart-diverges", site, hist, hs[0], "restart after block(s) %v (%s): block %d differs from the uninterrupted run: %s", hs, phase, b+1, detail)
				break
			}
			if memOnly {
				st.Eval("memory-digest-differs-without-visible-result")
			}
		}
		res.Histories++
		res.Blocks += int64(H)
		res.Counters["restart-points-with-an-open-round-holding-reports-of-one-validator-from-two-blocks"] += int64(o.repeatReports)
		if o.repeatReports > 0 {
			res.Counters["histories-with-repeat-reports-in-open-rounds"]++
		}
		if len(st.Samples) < 3 {
			st.Sample(map[string]interface{}{"history": hist, "blocks": H, "restart_points": len(restartSets), "max_nonce": maxNonce, "txs": countTxs(script), "first_taint_block": taintBlock})
		}
	}
	res.AddStats(st)
	return res
}

func countTxs(s []blockScript) int {
	n := 0
	for _, b := range s {
		n += len(b.txs)
	}
	return n
}

// runScript executes the script on a fresh chain, restarting after the blocks listed in restarts (1-based heights).
func runScript(cfg sim.Config, script []blockScript, restarts []int, phases map[int64]string) ([]blockTrace, bool) {
	c, err := sim.NewChain(cfg)
	if err != nil {
		return nil, false
	}
	rs := map[int]bool{}
	for _, h := range restarts {
		rs[h] = true
	}
	var out []blockTrace
	prevParams := ""
	for i, b := range script {
		t, ok := replayBlock(c, b)
		if !ok {
			return out, false
		}
		// classify the phase at the end of this block (restart point candidates)
		open := oraclekeeper.VerifOpenRounds()
		ph := "idle"
		if len(open) > 0 {
			ph = fmt.Sprintf("open-rounds=%d", minInt(len(open), 3))
			for _, based := range open {
				if uint64(t.height) == based {
					ph += "|just-opened"
					break
				}
			}
		}
		if t.valUpd != valUpdDigest(nil) {
			ph += "|validator-set-changed"
		}
		pp := c.App.OracleKeeper.GetParams(c.CheckCtx())
		if pb, err := pp.Marshal(); err == nil {
			// the check state is the state just committed
			if d := hashBytes(pb); prevParams != "" && d != prevParams {
				ph += "|params-changed"
				prevParams = d
			} else if prevParams == "" {
				prevParams = d
			}
		}
		if strings.Contains(ph, "idle") && len(t.txs) > 0 {
			ph = "idle-after-traffic"
		}
		t.phase = ph
		out = append(out, t)
		if rs[i+1] {
			if err := c.Restart(); err != nil {
				return out, false
			}
		}
	}
	return out, true
}

// dumpStoreDiff (debug): re-runs both variants up to block n and prints the differing oracle store keys.
func dumpStoreDiff(cfg sim.Config, script []blockScript, restarts []int, n int) {
	run := func(rs []int) sim.Raw {
		c, _ := sim.NewChain(cfg)
		m := map[int]bool{}
		for _, h := range rs {
			m[h] = true
		}
		var raw sim.Raw
		for i, b := range script[:n] {
			c.BeginBlock(b.dt)
			for _, tx := range b.txs {
				c.DeliverTx(tx)
			}
			c.EndBlock()
			raw = c.DumpStores(c.Ctx(), []string{"oracle"})
			c.Commit()
			if m[i+1] {
				c.Restart()
			}
		}
		return raw
	}
	a, b := run(nil), run(restarts)
	for _, d := range sim.DiffRaw(a, b, 8) {
		fmt.Printf("   store diff: %+v\n", d)
	}
}
