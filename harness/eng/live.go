package eng

import (
	"fmt"
	"math/big"
	"math/rand"
	"os"
	"strings"
	"time"

	sdkmath "cosmossdk.io/math"
	sdk "github.com/cosmos/cosmos-sdk/types"
	authtypes "github.com/cosmos/cosmos-sdk/x/auth/types"
	govtypes "github.com/cosmos/cosmos-sdk/x/gov/types"
	govv1 "github.com/cosmos/cosmos-sdk/x/gov/types/v1"
	"github.com/ethereum/go-ethereum/accounts/abi"
	"github.com/ethereum/go-ethereum/common"

	operatortypes "github.com/ExocoreNetwork/exocore/x/operator/types"

	"verif/mon"
	"verif/ops"
	"verif/sim"
)

// live engine (C11): hostile histories of every workload family followed by "everything that can follow" - the
// safety restatement of the liveness claim is: no ABCI call panics out of the application (BeginBlock / EndBlock /
// Commit, or a panic escaping DeliverTx / CheckTx), the update lists never empty the validator set (CometBFT
// refuses that: consensus failure), and after each hostile history the chain still executes 13 further blocks that
// span an end of every epoch identifier (minute, hour, day, week).
func init() {
	Register("live", runLive)
	RegisterPlan(Plan{Prop: "C11", Engine: "live", Quick: 96, Thorough: 2400, Level: "exploration", MinCases: 30,
		Rule: "8 hostile families per 8 histories: ledger workloads with astronomically large / zero amounts (default, slash-heavy, power/price, invalid-operation, exit/keys/queues profiles) each followed by byte-level mutations of the transactions they recorded (truncated, bit-flipped, extended, spliced, empty, oversized; through CheckTx and DeliverTx); ABI-level fuzzing of every precompile method with extreme / malformed arguments (including BLS: wrong lengths, zero and infinity encodings, points not on the curve, empty arrays) and raw selector+garbage calldata; governance proposals that reach the end of their voting period with and without votes; hostile oracle histories (non-numeric prices, several messages, oversized). Every history ends with 13 blocks spanning minute/hour/day/week epoch ends. A panic in BeginBlock/EndBlock/Commit, a panic escaping DeliverTx/CheckTx, or an update list that empties the validator set is a violation; signature = phase + innermost exocore frame. Distinct = <family, phase reached, input class> executed and followed by the healthy tail."})
}

type liveRun struct {
	s    *mon.Stats
	hist string
	fam  string
	r    *rand.Rand
}

// exoFrame returns the innermost frame of the code base (or of the SDK modules it wires) in a panic stack.
func exoFrame(stack string) string {
	lines := strings.Split(stack, "\n")
	pick := func(pfx string) string {
		for _, ln := range lines {
			if i := strings.Index(ln, pfx); i >= 0 && !strings.HasPrefix(ln, "\t") {
				f := ln[i:]
				if j := strings.Index(f, "("); j > 0 {
					// keep "(*T).method" receivers: cut at the argument list, i.e. the last "(" that is not a receiver
					if k := strings.LastIndex(f, "("); k > 0 {
						f = f[:k]
					}
				}
				return strings.TrimSuffix(strings.TrimSpace(f), "(...)")
			}
		}
		return ""
	}
	if f := pick("github.com/ExocoreNetwork/exocore/"); f != "" {
		return strings.TrimPrefix(f, "github.com/ExocoreNetwork/exocore/")
	}
	if f := pick("github.com/cosmos/cosmos-sdk/x/"); f != "" {
		return strings.TrimPrefix(f, "github.com/cosmos/cosmos-sdk/")
	}
	return "unknown-frame"
}

func panicClass(v string) string {
	lv := strings.ToLower(v)
	switch {
	case strings.Contains(lv, "int overflow") || strings.Contains(lv, "overflow"):
		return "int-overflow"
	case strings.Contains(lv, "out of bound"):
		return "int64-out-of-bound"
	case strings.Contains(lv, "unimplemented"):
		return "unimplemented"
	case strings.Contains(lv, "index out of range") || strings.Contains(lv, "slice bounds"):
		return "index-out-of-range"
	case strings.Contains(lv, "nil pointer") || strings.Contains(lv, "invalid memory address"):
		return "nil-dereference"
	case strings.Contains(lv, "negative coin"):
		return "negative-coin-amount"
	case strings.Contains(lv, "division by zero") || strings.Contains(lv, "divide by zero"):
		return "division-by-zero"
	}
	return "other"
}

// judge reports a dead world; returns true if it was dead.
func (l *liveRun) judge(w *ops.World, class string) bool {
	l.s.Eval("history-survives")
	if !w.Dead {
		return false
	}
	c := w.C
	switch {
	case len(c.Panics) > 0:
		pp := c.Panics[len(c.Panics)-1]
		l.s.Violate("abci-call-panicked", pp.Phase+"|"+exoFrame(pp.Stack)+"|"+panicClass(pp.Value), l.hist, len(w.Steps), "%s panicked (family %s, after %s): %s", pp.Phase, l.fam, class, trunc80(pp.Value))
	case w.ConsensusHalt != "":
		l.s.Violate("consensus-halt", haltClass(w.ConsensusHalt), l.hist, len(w.Steps), "EndBlock returned validator updates that CometBFT refuses (family %s, after %s): %s", l.fam, class, trunc80(w.ConsensusHalt))
	default:
		l.s.Violate("history-dead", class, l.hist, len(w.Steps), "the history stopped without a recorded panic (family %s)", l.fam)
	}
	return true
}

// escaped reports a panic that escaped DeliverTx / CheckTx in step st.
func (l *liveRun) escaped(w *ops.World, st *ops.Step, class string) {
	if st == nil || st.Panic == "" {
		return
	}
	stack := ""
	if n := len(w.C.Panics); n > 0 {
		stack = w.C.Panics[n-1].Stack
	}
	if st.Via == "keeper" || st.Via == "gov" {
		return // direct keeper calls of the harness are not ABCI entry points (baseapp's recovery is not around them)
	}
	l.s.Violate("panic-escaped-transaction-processing", st.Via+"|"+exoFrame(stack)+"|"+panicClass(st.Panic), l.hist, st.I, "a panic escaped %s of a %s transaction: %s", st.Via, class, trunc80(st.Panic))
}

// tail: everything that can follow - 13 blocks spanning minute, hour, day and week epoch ends.
func (l *liveRun) tail(w *ops.World, class string) {
	if l.judge(w, class) {
		return
	}
	dts := []time.Duration{w.Dt, w.Dt, w.Dt, 61 * time.Second, w.Dt, 61 * time.Minute, w.Dt, 25 * time.Hour, w.Dt, 8 * 24 * time.Hour, w.Dt, w.Dt, w.Dt}
	for _, dt := range dts {
		if !w.Advance(dt) {
			l.judge(w, class+"|healthy-tail")
			return
		}
	}
	l.s.Case(l.fam + "|" + class + "|tail-completed")
}

func runLive(j Job) *Result {
	res := NewResult()
	st := mon.NewStats("C11")
	for i := j.From; i < j.To; i++ {
		hist := fmt.Sprintf("live:%d:%d", j.Seed, i)
		r := rand.New(rand.NewSource(j.Seed*2038074743 + int64(i)))
		l := &liveRun{s: st, hist: hist, r: r}
		var w *ops.World
		variant := j.Variant
		if variant == "" {
			variant = os.Getenv("VERIF_LIVE_VARIANT")
		}
		if variant == "fuzz" {
			// the cgo BLS code and every precompile's argument parsing: all histories of this pass are the fuzz family
			l.fam = "precompile-fuzz"
			w = l.ledger(j, i, "")
			if w != nil && !w.Dead {
				l.calldata(w)
			}
		}
		if variant == "unpriced" {
			l.fam = "unpriced-asset-slash"
			w = l.unpricedSlash()
		}
		sel := i % 8
		if w != nil {
			sel = -1
		}
		switch sel {
		case 0, 1, 2, 3, 4:
			prof := []string{"", "slash", "power", "invalid", []string{"exit", "keys", "queues"}[r.Intn(3)]}[i%8]
			l.fam = "ledger:" + prof
			w = l.ledger(j, i, prof)
			if w != nil && !w.Dead {
				l.mutations(w)
			}
		case 5:
			l.fam = "precompile-fuzz"
			w = l.ledger(j, i, "")
			if w != nil && !w.Dead {
				l.calldata(w)
			}
		case 6:
			if (i/8)%3 == 2 {
				l.fam = "last-validator-exits"
				w = l.lastExit()
				break
			}
			if (i/8)%3 == 1 {
				if (i/24)%2 == 1 {
					l.fam = "avs-tasks"
					w = l.avsTasks()
					break
				}
				l.fam = "unpriced-asset-slash"
				w = l.unpricedSlash()
				break
			}
			l.fam = "governance"
			w = l.ledger(j, i, "")
			if w != nil && !w.Dead {
				l.proposal(w)
			}
		case 7:
			if (i/8)%3 == 0 {
				l.fam = "native-stake-slashed-repeatedly"
				w = l.nativeSlashed(j, i)
				break
			}
			l.fam = "oracle"
			w = l.oracle(j, i)
		}
		if w == nil {
			res.Inconclusive = "world construction failed"
			continue
		}
		l.tail(w, "end")
		res.Histories++
		res.Steps += int64(len(w.Steps))
		res.Blocks += w.C.Height()
		for _, mp := range w.MonitorPanics {
			res.Inconclusive = "monitor panic: " + mp
		}
		if len(st.Samples) < 3 {
			st.Sample(map[string]interface{}{"history": hist, "family": l.fam, "steps": len(w.Steps), "blocks": w.C.Height()})
		}
	}
	res.AddStats(st)
	return res
}

// haltClass names the reason for which CometBFT's own validation refuses a validator update list.
func haltClass(reason string) string {
	switch {
	case strings.Contains(reason, "would result in empty set"):
		return "validator-set-would-be-empty"
	case strings.Contains(reason, "voting power can't be higher than"), strings.Contains(reason, "total voting power"):
		return "voting-power-above-cometbft-maximum"
	case strings.Contains(reason, "duplicate"):
		return "duplicate-entry"
	case strings.Contains(reason, "negative"):
		return "negative-power"
	}
	return "other"
}

func (l *liveRun) ledger(j Job, i int, prof string) *ops.World {
	r := l.r
	o := ops.DefaultLedgerOpts()
	o.NOps = 2 + r.Intn(4)
	o.ExtraOps = 1 + r.Intn(3)
	o.NStakers = 3 + r.Intn(6)
	o.Steps = 60 + r.Intn(80)
	if j.Tier == "thorough" {
		o.Steps = 100 + r.Intn(200)
	}
	o.Unbond = uint32(1 + r.Intn(3))
	if r.Intn(3) == 0 {
		o.MaxVals = uint32(1 + r.Intn(3))
	}
	if r.Intn(4) == 0 {
		o.MinSelf = int64(1 + r.Intn(200))
	}
	o.Profile = prof
	o.HostileAmt = true
	// every third ledger history, and every history of the slash profile, stakes the chain's own token as well (registered through the gateway, added to the
	// dogfood AVS by governance): its delegations are slashed and its undelegations paid out by the bank at maturity
	o.NativeStaking = (i/8)%3 == 1 || prof == "slash"
	w, err := ops.BuildLedgerWorld(j.Seed*131+17, i, o)
	if err != nil {
		return nil
	}
	w.KeepSnaps = false
	w.RunLedger(o)
	for _, st := range w.Steps {
		if st.Panic != "" && st.Kind != "begin_block" && st.Kind != "end_block" {
			l.escaped(w, st, st.Kind)
		}
	}
	l.s.Case(l.fam + "|workload-completed")
	if w.NativeStaking {
		l.s.Case(l.fam + "|native-token-staked|workload-completed")
	}
	return w
}

// mutations replays byte-level mutations of recorded transactions.
func (l *liveRun) mutations(w *ops.World) {
	r := l.r
	var pool [][]byte
	for _, st := range w.Steps {
		if len(st.TxBytes) > 0 {
			pool = append(pool, st.TxBytes)
		}
	}
	if len(pool) == 0 {
		return
	}
	n := 40
	for k := 0; k < n && !w.Dead; k++ {
		src := pool[r.Intn(len(pool))]
		b := append([]byte{}, src...)
		class := ""
		switch r.Intn(8) {
		case 0:
			class = "truncated"
			b = b[:r.Intn(len(b))]
		case 1:
			class = "bit-flipped"
			for x := 0; x < 1+r.Intn(4); x++ {
				b[r.Intn(len(b))] ^= byte(1 << uint(r.Intn(8)))
			}
		case 2:
			class = "byte-overwritten"
			for x := 0; x < 1+r.Intn(8); x++ {
				b[r.Intn(len(b))] = byte(r.Intn(256))
			}
		case 3:
			class = "extended"
			ext := make([]byte, 1+r.Intn(200))
			r.Read(ext)
			b = append(b, ext...)
		case 4:
			class = "spliced"
			o := pool[r.Intn(len(pool))]
			b = append(b[:r.Intn(len(b))], o[r.Intn(len(o)):]...)
		case 5:
			class = "empty"
			b = nil
		case 6:
			class = "oversized"
			b = append(b, make([]byte, 300_000+r.Intn(200_000))...)
		case 7:
			class = "length-prefix-inflated"
			// varint length fields inflated: 0xff continuation bytes
			p := r.Intn(len(b))
			b = append(append(append([]byte{}, b[:p]...), 0xff, 0xff, 0xff, 0xff, 0x7f), b[p:]...)
		}
		st := w.CheckTxStep("mutated_tx", b, r.Intn(4) == 0, map[string]string{"class": class}, nil)
		l.escaped(w, st, class)
		st = w.RawTxStep("mutated_tx", b, map[string]string{"class": class}, nil)
		l.escaped(w, st, class)
		l.s.Eval("mutated-transaction")
		l.s.Case(l.fam + "|mutated-tx|" + class)
		if k%10 == 9 {
			w.Advance(w.Dt)
		}
	}
}

// extreme argument generator for an ABI type
func (l *liveRun) arg(t abi.Type, depth int) interface{} {
	r := l.r
	switch t.T {
	case abi.UintTy:
		switch t.Size {
		case 8:
			return uint8([]int{0, 1, 18, 19, 20, 32, 255}[r.Intn(7)])
		case 32:
			return uint32([]uint32{0, 1, 101, 1616, 0x65, 1<<31 - 1, 1<<32 - 1}[r.Intn(7)])
		case 64:
			return []uint64{0, 1, 2, 1 << 32, 1<<63 - 1, 1 << 63, 1<<64 - 1}[r.Intn(7)]
		default:
			max := new(big.Int).Sub(new(big.Int).Lsh(big.NewInt(1), uint(t.Size)), big.NewInt(1))
			return []*big.Int{big.NewInt(0), big.NewInt(1), new(big.Int).Lsh(big.NewInt(1), 63), new(big.Int).Lsh(big.NewInt(1), 64), new(big.Int).Lsh(big.NewInt(1), 255), max, new(big.Int).Sub(max, big.NewInt(1))}[r.Intn(7)]
		}
	case abi.BoolTy:
		return r.Intn(2) == 0
	case abi.AddressTy:
		return []common.Address{{}, common.HexToAddress("0xffffffffffffffffffffffffffffffffffffffff"), sim.AddrAssets, sim.AddrAVS, common.BytesToAddress(randBytes(r, 20))}[r.Intn(5)]
	case abi.StringTy:
		return []string{"", "0", "-1", "1e999", "NaN", "0.5", "1.0000000000000000001", "100", strings.Repeat("9", 400), string([]byte{0xff, 0xfe, 0x00}), "exo1", "exo1qqqqqqqqqqqqqqqqqqqqqqqqqqqqqqqqnrql8a", strings.Repeat("a", 70_000), "minute", "week", "a,b", ",,", "x,Ethereum,8", "x,Ethereum,999"}[r.Intn(19)]
	case abi.BytesTy:
		n := []int{0, 1, 19, 20, 31, 32, 33, 48, 96, 1000}[r.Intn(10)]
		b := randBytes(r, n)
		switch r.Intn(4) {
		case 0:
			for i := range b {
				b[i] = 0
			}
		case 1:
			for i := range b {
				b[i] = 0xff
			}
		case 2:
			if n > 0 {
				b[0] = 0xc0 // compressed point-at-infinity flag
				for i := 1; i < n; i++ {
					b[i] = 0
				}
			}
		}
		return b
	case abi.FixedBytesTy:
		if t.Size == 32 {
			var x [32]byte
			copy(x[:], randBytes(r, 32))
			return x
		}
	case abi.SliceTy:
		n := []int{0, 1, 2, 5, 300}[r.Intn(5)]
		if depth > 0 && n > 5 {
			n = 2
		}
		switch t.Elem.T {
		case abi.StringTy:
			out := make([]string, n)
			for i := range out {
				out[i] = l.arg(*t.Elem, depth+1).(string)
			}
			return out
		case abi.UintTy:
			if t.Elem.Size == 64 {
				out := make([]uint64, n)
				for i := range out {
					out[i] = l.arg(*t.Elem, depth+1).(uint64)
				}
				return out
			}
		case abi.BytesTy:
			out := make([][]byte, n)
			for i := range out {
				out[i] = l.arg(*t.Elem, depth+1).([]byte)
			}
			return out
		}
	}
	return nil
}

func randBytes(r *rand.Rand, n int) []byte {
	b := make([]byte, n)
	r.Read(b)
	return b
}

// calldata: ABI-level fuzzing of every precompile method plus raw garbage.
func (l *liveRun) calldata(w *ops.World) {
	r := l.r
	gw := w.C.Gen.Cfg.Gateway
	targets := []struct {
		pc   string
		addr common.Address
	}{{"assets", sim.AddrAssets}, {"delegation", sim.AddrDelegation}, {"reward", sim.AddrReward}, {"slash", sim.AddrSlash}, {"avs", sim.AddrAVS}, {"bls", sim.AddrBLS}}
	for k := 0; k < 120 && !w.Dead; k++ {
		t := targets[r.Intn(len(targets))]
		a := sim.ABI(t.pc)
		var names []string
		for n := range a.Methods {
			names = append(names, n)
		}
		sortStrings(names)
		m := a.Methods[names[r.Intn(len(names))]]
		var data []byte
		class := "typed-extremes"
		var args []interface{}
		ok := true
		for _, in := range m.Inputs {
			v := l.arg(in.Type, 0)
			if v == nil {
				ok = false
				break
			}
			args = append(args, v)
		}
		if ok {
			if packed, err := a.Pack(m.Name, args...); err == nil {
				data = packed
			}
		}
		switch {
		case data == nil:
			class = "selector+garbage"
			data = append(append([]byte{}, m.ID...), randBytes(r, r.Intn(300))...)
		case r.Intn(5) == 0:
			class = "truncated-calldata"
			data = data[:4+r.Intn(len(data)-3)]
		case r.Intn(6) == 0:
			class = "offset-corrupted"
			if len(data) > 36 {
				p := 4 + 32*r.Intn((len(data)-4)/32)
				for x := 0; x < 32; x++ {
					data[p+x] = 0xff
				}
			}
		}
		from := gw
		if r.Intn(4) == 0 {
			from = w.C.Gen.Cfg.Accounts[1+r.Intn(len(w.C.Gen.Cfg.Accounts)-1)]
		}
		addr := t.addr
		bz, _, err := w.C.EthTx(w.C.Ctx(), sim.EthTxArgs{From: from, To: &addr, Data: data, GasLimit: 3_000_000})
		if err != nil {
			continue
		}
		st := w.RawTxStep("precompile_fuzz", bz, map[string]string{"precompile": t.pc, "method": m.Name, "class": class}, nil)
		l.escaped(w, st, t.pc+"."+m.Name)
		l.s.Eval("fuzzed-precompile-call")
		l.s.Case(l.fam + "|" + t.pc + "." + m.Name + "|" + class)
		if k%12 == 11 {
			w.Advance(w.Dt)
		}
	}
}

func sortStrings(s []string) {
	for i := 1; i < len(s); i++ {
		for j := i; j > 0 && s[j] < s[j-1]; j-- {
			s[j], s[j-1] = s[j-1], s[j]
		}
	}
}

// proposal: a governance proposal whose deposit is met reaches the end of its voting period.
func (l *liveRun) proposal(w *ops.World) {
	r := l.r
	c := w.C
	user := c.Gen.Cfg.Accounts[1+r.Intn(3)]
	gp := c.App.GovKeeper.GetParams(c.Ctx())
	dep := sdk.NewCoins(gp.MinDeposit...)
	withVote := r.Intn(2) == 0
	class := "proposal-without-votes"
	if withVote {
		class = "proposal-with-a-vote"
	}
	gov := authtypes.NewModuleAddress(govtypes.ModuleName).String()
	_ = gov
	msg, err := govv1.NewMsgSubmitProposal(nil, dep, user.Acc.String(), "meta", "title", "summary")
	if err != nil {
		return
	}
	st := w.CosmosStep("gov_submit_proposal", user, sim.CosmosTxOpts{}, map[string]string{"deposit": dep.String()}, msg)
	l.escaped(w, st, class)
	if !st.Ack {
		l.s.Case(l.fam + "|proposal-not-accepted")
		return
	}
	if withVote {
		pid := uint64(1)
		if ps := c.App.GovKeeper.GetProposals(c.Ctx()); len(ps) > 0 {
			pid = ps[len(ps)-1].Id
		}
		voter := c.Gen.Cfg.Accounts[1+r.Intn(3)]
		vst := w.CosmosStep("gov_vote", voter, sim.CosmosTxOpts{}, map[string]string{}, govv1.NewMsgVote(voter.Acc, pid, govv1.OptionYes, ""))
		l.escaped(w, vst, class)
	}
	// the voting period ends
	vp := 48 * time.Hour
	if gp.VotingPeriod != nil {
		vp = *gp.VotingPeriod
	}
	w.Advance(w.Dt)
	if w.Advance(vp+time.Minute) && w.Advance(w.Dt) {
		l.s.Case(l.fam + "|" + class + "|voting-period-ended")
	}
	l.s.Eval("governance-proposal")
	_ = sdkmath.ZeroInt
}

// oracle: a hostile oracle history (all input classes of the oracle engine, including the memory-tainting ones).
func (l *liveRun) oracle(j Job, i int) *ops.World {
	r := l.r
	cfg, feeders, maxNonce := oracleConfig(r)
	c, err := sim.NewChain(cfg)
	if err != nil {
		return nil
	}
	w := ops.NewWorld(c, r)
	w.Dt = 7 * time.Second
	for k := 0; k < 3; k++ {
		w.AddStaker(101, sim.NewAccount(fmt.Sprintf("ostaker%d", k)).Eth.Bytes())
	}
	o := &oracleRun{w: w, r: r, hist: l.hist, c12: mon.NewStats("C12"), c13: mon.NewStats("C13"), feeders: feeders, maxNonce: maxNonce,
		cur: map[uint64]*oRound{}, closed: map[uint64]uint64{}, outsider: sim.NewConsKey("outsider"), tainted: map[uint64]string{}}
	for _, op := range w.Opers {
		if len(op.Keys) > 0 {
			o.vals = append(o.vals, op.Keys[0])
		}
	}
	o.run(40 + r.Intn(30))
	for _, st := range w.Steps {
		if st.Panic != "" && st.Kind != "begin_block" && st.Kind != "end_block" {
			l.escaped(w, st, st.Kind+"/"+st.P["class"])
		}
	}
	l.s.Case(l.fam + "|workload-completed")
	return w
}

// lastExit: ordinary undelegations only - every delegator of every validator leaves.
func (l *liveRun) lastExit() *ops.World {
	r := l.r
	n := 1 + r.Intn(3)
	stakes := make([]int64, n)
	for i := range stakes {
		stakes[i] = int64(10 + r.Intn(500))
	}
	c, err := sim.NewChain(sim.DefaultConfig(n, stakes))
	if err != nil {
		return nil
	}
	w := ops.NewWorld(c, r)
	if !w.Start() {
		return w
	}
	w.Advance(w.Dt)
	for i := 0; i < n && !w.Dead; i++ {
		s, o, a := w.Stakers[i], w.Opers[i], w.Assets[0]
		pos := ops.Position(w.Last.Ledger, s.ID, a.ID, o.Addr())
		if pos.IsPositive() {
			st := w.Undelegate(s, a, o, pos)
			l.escaped(w, st, "undelegate-all")
		}
	}
	l.s.Case(l.fam + "|workload-completed")
	return w
}

// unpricedSlash: a token registered at run time whose first oracle round fails has an empty price; an operator
// holding that asset is then slashed for downtime (everything the slash values must cope with the missing price),
// and epoch ends value it too.
func (l *liveRun) unpricedSlash() *ops.World {
	r := l.r
	n := 2 + r.Intn(3)
	stakes := make([]int64, n)
	for i := range stakes {
		stakes[i] = int64(50 + r.Intn(500))
	}
	c, err := sim.NewChain(sim.DefaultConfig(n, stakes))
	if err != nil {
		return nil
	}
	w := ops.NewWorld(c, r)
	w.Dt = 10 * time.Second
	if !w.Start() {
		return w
	}
	victim := w.Opers[1]
	if st := w.RegisterToken(1 + r.Intn(1000)); !st.Ack {
		l.s.Case(l.fam + "|token-not-registered")
		return w
	}
	a := w.Assets[len(w.Assets)-1]
	s := w.AddStaker(a.Lz, sim.NewAccount("unpriced-staker-"+l.hist).Eth.Bytes())
	amt := sdkmath.NewInt(int64(1_000_000 * (1 + r.Intn(50))))
	if st := w.Deposit(s, a, amt); st.Ack {
		w.Delegate(s, a, victim, amt)
	}
	// a delegation of a priced asset as well: the operator's power changes at the next epoch end
	s2 := w.AddStaker(w.Assets[0].Lz, sim.NewAccount("unpriced-staker2-"+l.hist).Eth.Bytes())
	if st := w.Deposit(s2, w.Assets[0], amt); st.Ack {
		w.Delegate(s2, w.Assets[0], victim, amt)
	}
	// an AVS that supports a priced asset and the new token; the operators opt in (their values are refreshed at
	// every epoch end of that AVS, with and without a price for the new token)
	owner := c.Gen.Cfg.Accounts[4]
	spec := ops.AVSSpec{Owner: owner, Name: "unpriced-avs", Assets: []string{w.Assets[0].ID, a.ID}, MinSelf: 0, EpochID: "minute", Unbonding: 2, TaskAddr: sim.NewAccount("unpriced-task-" + l.hist).Eth}
	if r.Intn(2) == 0 {
		spec.Assets = []string{a.ID, w.Assets[0].ID, w.Assets[1].ID}
	}
	if st := w.RegisterAVS(spec); st.Ack {
		for _, o := range w.Opers {
			w.OptIn(o, owner.Eth.String(), nil)
		}
	}
	for k := 0; k < 17 && !w.Dead; k++ { // the new feeder starts 10 blocks later, its first window passes without reports
		w.Advance(w.Dt)
	}
	if !w.Dead {
		c.Absent[fmt.Sprintf("%X", victim.Keys[0].ConsAddr().Bytes())] = true
		for k := 0; k < 16 && !w.Dead; k++ {
			w.Advance(w.Dt)
		}
		delete(c.Absent, fmt.Sprintf("%X", victim.Keys[0].ConsAddr().Bytes()))
	}
	if !w.Dead {
		slashed := false
		for key := range w.Last.Raw["operator"] {
			if len(key) > 0 && key[0] == operatortypes.KeyPrefixOperatorSlashInfo[0] && strings.Contains(key, victim.Addr()) {
				slashed = true
			}
		}
		l.s.Case(fmt.Sprintf("%s|downtime-slash-executed=%v|workload-completed", l.fam, slashed))
	}
	return w
}

// nativeSlashed: the chain's own token is a staking asset of the dogfood AVS; a staker delegates it to a validator,
// undelegates a part (the record is paid out by the bank when it matures) and the operator is slashed two or three
// times while the record is pending, each slash computed against the operator's already reduced value; then the
// record matures.
func (l *liveRun) nativeSlashed(j Job, i int) *ops.World {
	r := l.r
	o := ops.DefaultLedgerOpts()
	o.NOps = 2 + r.Intn(3)
	o.ExtraOps, o.NStakers, o.Steps = 0, 2, 0
	o.Unbond = uint32(1 + r.Intn(3))
	o.NativeStaking = true
	w, err := ops.BuildLedgerWorld(j.Seed*131+19, i, o)
	if err != nil {
		return nil
	}
	w.KeepSnaps = false
	w.RunLedger(o)
	if w.Dead || !w.NativeStaking {
		l.s.Case(l.fam + "|native-token-not-staked")
		return w
	}
	victim := w.Opers[1+r.Intn(len(w.Opers)-1)]
	acct := sim.NewAccount("native-staker-" + l.hist)
	w.Fund(acct)
	s := w.AddNativeStaker(acct)
	unit := sdkmath.NewIntWithDecimal(1, 18)
	amt := unit.MulRaw(int64(20 + r.Intn(400)))
	if st := w.Delegate(s, w.Native, victim, amt); !st.Ack {
		l.s.Case(l.fam + "|delegation-refused")
		return w
	}
	for k := 0; k < 4 && !w.Dead; k++ { // the delegation carries voting power after the next epoch end
		w.Advance(w.Dt)
	}
	if w.Dead {
		return w
	}
	w.Undelegate(s, w.Native, victim, amt.QuoRaw(int64(1+r.Intn(3))))
	w.Advance(w.Dt)
	nSlash := 2 + r.Intn(2)
	executed := 0
	for k := 0; k < nSlash && !w.Dead; k++ {
		power := int64(1)
		if vals, err := w.C.App.OperatorKeeper.GetOperatorOptedUSDValue(w.C.Ctx(), w.AVSAddr, victim.Addr()); err == nil && !vals.ActiveUSDValue.IsNil() {
			if t := vals.ActiveUSDValue.TruncateInt(); t.IsInt64() && t.Int64() > 0 {
				power = t.Int64()
			}
		}
		if k > 0 && r.Intn(2) == 0 {
			power = power * int64(2+r.Intn(2)) // the power the operator had before the earlier slashes
		}
		st := w.SlashStep(&operatortypes.SlashInputInfo{IsDogFood: true, Power: power, SlashType: 1, Operator: victim.Acct.Acc, AVSAddr: w.AVSAddr,
			SlashID: fmt.Sprintf("0x%x_0x%x", 1+k%2, 7000+k), SlashEventHeight: w.C.Height() - 1 - int64(r.Intn(2)), SlashProportion: sdkmath.LegacyNewDecWithPrec(int64(250+r.Intn(500)), 3)})
		if st.Ack {
			executed++
		}
		if r.Intn(2) == 0 {
			w.Advance(w.Dt)
		}
	}
	for k := 0; k < 3*int(o.Unbond+2) && !w.Dead; k++ { // the record matures
		w.Advance(w.Dt)
	}
	if !w.Dead {
		l.s.Case(fmt.Sprintf("%s|slashes-executed=%d|pending-records-left=%d|workload-completed", l.fam, executed, len(w.Last.Ledger.Undel)))
	}
	return w
}

// avsTasks: the task lifecycle workload of the avs engine (registry, BLS keys, submissions on and off the window
// boundaries, opt-outs of signers) judged here only for halts.
func (l *liveRun) avsTasks() *ops.World {
	r := l.r
	n := 3 + r.Intn(3)
	stakes := make([]int64, n)
	for k := range stakes {
		stakes[k] = int64(20 + r.Intn(500))
	}
	c, err := sim.NewChain(sim.DefaultConfig(n, stakes))
	if err != nil {
		return nil
	}
	w := ops.NewWorld(c, r)
	w.Dt = 20 * time.Second
	if !w.Start() {
		return w
	}
	a := &avsRun{w: w, r: r, s: mon.NewStats("C20"), hist: l.hist, reg: map[string]bool{}, taskAddrOf: map[string]string{}, nextID: map[string]uint64{}, optedIn: map[string]map[string]bool{}}
	a.signersLeave = true
	a.run(false)
	l.s.Case(l.fam + "|workload-completed")
	return w
}
