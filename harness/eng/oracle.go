package eng

import (
	"crypto/sha256"
	"encoding/hex"
	"encoding/json"
	"fmt"
	"math/big"
	"math/rand"
	"sort"
	"strings"
	"time"

	sdkmath "cosmossdk.io/math"
	sdk "github.com/cosmos/cosmos-sdk/types"

	oraclekeeper "github.com/ExocoreNetwork/exocore/x/oracle/keeper"
	oracletypes "github.com/ExocoreNetwork/exocore/x/oracle/types"

	"verif/mon"
	"verif/ops"
	"verif/sim"
)

// oracle engine (C12, C13): real price transactions signed with validators' consensus keys through
// CheckTx / DeliverTx, a reference round model stepped alongside, outcome classification from state deltas.
func init() {
	Register("oracle", runOracle)
	rule := "histories of 50-90 blocks (seeded PRNG) with 3-6 validators of skewed power (e.g. 34/33/33, 67/33, 2/1/1/1/1), 2-3 token feeders with different intervals/start/end blocks, MaxNonce in {1,2,3}; per block a mix of honest, conflicting, duplicate, late/early, wrong-base-block, wrong-nonce, wrong-decimal, future-timestamp, unknown-feeder, oversized, multi-message, non-validator, wrong-key and forged-signature price transactions (DeliverTx, and CheckTx/ReCheckTx), plus stake changes that alter the validator set mid-window; in two thirds of the histories (test-network chain id) also parameter updates: end blocks for running feeders (outside every window / inside a window / on a round boundary / in the past) and new feeders that resume an ended token (right, repeated or skipped round id). "
	RegisterPlan(Plan{Prop: "C12", Engine: "oracle", Quick: 96, Thorough: 3000, Level: "exploration", MinCases: 8,
		Rule: rule + "After every block the stored round ids are compared with a reference round model (one close per round, no gap/repeat, retention bound); every finalisation is checked against the monitor's own tally of counted submissions (reporting power and agreeing power strictly above 2/3, stored price = agreed value). Distinct = ⟨close kind (final / window expiry / forced seal / feeder end), power split class, #submitters, conflicting?⟩."})
	RegisterPlan(Plan{Prop: "C13", Engine: "oracle", Quick: 96, Thorough: 3000, Level: "exploration", MinCases: 8,
		Rule: rule + "Every price transaction is classified from observed state deltas (not admitted / admitted-not-counted / counted) and the 'only if' clauses are asserted against a predicate evaluated on the pre-state; not-admitted must change nothing, admitted-not-counted only that validator's nonce (store bytes and the in-memory digest H1). Distinct = ⟨ABCI mode, sender class, input class, observed outcome⟩."})
}

type oFeeder struct {
	id, token            uint64
	start, interval, end uint64
	startRound           uint64
	dec                  int32
}

type oSub struct {
	val    string // validator key (cons bech32)
	power  *big.Int
	source uint64
	detID  string
	price  string
}

type oRound struct {
	feeder uint64
	based  uint64
	id     uint64
	open   bool
	final  bool
	kind   string
	subs   []oSub
	seen   map[string]bool // validator|source|detID already reported
	admits map[string]int  // validator -> admitted txs
	total  *big.Int
	powers map[string]*big.Int
}

type oracleRun struct {
	w        *ops.World
	r        *rand.Rand
	hist     string
	c12, c13 *mon.Stats
	feeders  map[uint64]*oFeeder
	maxNonce int
	cur      map[uint64]*oRound
	closed   map[uint64]uint64 // feeder -> closed rounds
	vals     []*sim.ConsKey    // consensus keys of genesis validators (index = operator index)
	outsider *sim.ConsKey
	// tainted: feeders whose in-memory round state was changed by a transaction that was NOT counted (its store
	// writes were rolled back, the oracle's process memory was not). Everything that follows for such a feeder is
	// a consequence of that one defect and is reported under its own signature.
	tainted map[uint64]string
	// noTaintClasses: do not generate the two input classes that trigger the recorded memory-mutation findings
	noTaintClasses bool
	// silent: per-block probability (percent) that a validator does not report; drift: see honestPrice
	silent           int
	drift            bool
	scatter          bool
	scatterN         uint64
	leaver           int // index of the operator that opted out (0: none, -1: undecided)
	countedAt        map[string]int64
	repeatKeys       map[string]bool
	seenDets         map[string][]uint64
	repeatReports    int
	firstTaintHeight int64
	// parameter updates (histories on a test-network chain id, where MsgUpdateParams needs no governance)
	paramUser  *sim.Account
	superseded map[uint64]bool // feeders that ended and were resumed by a newer feeder of the same token
	res        *Result
}

func (o *oracleRun) site(fid uint64, s string) string {
	if o.tainted[fid] != "" {
		if s == "" {
			return "after-failed-tx-mutated-oracle-memory"
		}
		return s + "|after-failed-tx-mutated-oracle-memory"
	}
	return s
}

func oracleConfig(r *rand.Rand) (sim.Config, map[uint64]*oFeeder, int) {
	nVals := 3 + r.Intn(4)
	var stakes []int64
	switch r.Intn(5) {
	case 0:
		stakes = []int64{34, 33, 33}
	case 1:
		stakes = []int64{67, 33, 1}
	case 2:
		stakes = []int64{2, 1, 1, 1, 1}
	case 3:
		stakes = []int64{50, 25, 25, 1}
	default:
		for i := 0; i < nVals; i++ {
			stakes = append(stakes, int64(1+r.Intn(100)))
		}
	}
	cfg := sim.DefaultConfig(len(stakes), stakes)
	if r.Intn(3) > 0 {
		// two thirds of the histories run under a test-network chain id: there the oracle's MsgUpdateParams is open to
		// any signer, which is the only way parameters can change at all (governance cannot pass, see C11's findings)
		cfg.ChainID = "exocoretestnet_233-1"
	}
	maxNonce := []int{1, 2, 3, 3, 4, 5}[r.Intn(6)]
	cfg.OracleMaxNonce = int32(maxNonce)
	cfg.Assets = cfg.Assets[:2]
	cfg.Assets = append(cfg.Assets, sim.AssetCfg{Address: "0xc02aaa39b223fe8d0a0e5c4f27ead9083c756cc2", LzChainID: 101, Decimals: 18, HasOracle: true})
	// a third of the histories have 4-5 feeders, pairs of which share start block and interval (several rounds then
	// open and seal in the same block)
	extra := 0
	if r.Intn(3) == 0 {
		extra = 1 + r.Intn(2)
	}
	for k := 0; k < extra; k++ {
		cfg.Assets = append(cfg.Assets, sim.AssetCfg{Address: fmt.Sprintf("0x%040x", 0x5500000+k), LzChainID: 101, Decimals: 18, HasOracle: true})
	}
	n := len(cfg.Assets)
	feeders := map[uint64]*oFeeder{}
	// half of the histories list the feeders in another order than the tokens (feeder id != token id)
	order := make([]int, n)
	for k := range order {
		order[k] = k
	}
	if r.Intn(2) == 0 {
		order = r.Perm(n)
	}
	cfg.OracleFeederOrder = order
	feederOf := map[int]uint64{}
	for k, i := range order {
		feederOf[i] = uint64(k + 1)
	}
	for i := range cfg.Assets {
		cfg.Assets[i].Price = "" // no genesis price: round ids start at StartRoundID = 1
		cfg.Assets[i].PriceDec = []int32{0, 2, 8, 6, 4}[i%5]
		iv := uint64(2*maxNonce + r.Intn(6))
		st := uint64(1 + r.Intn(4))
		if i >= 3 || (extra > 0 && i == 1) {
			// same schedule as the previous feeder
			iv, st = cfg.Assets[i-1].Interval, cfg.Assets[i-1].FeederStart
		}
		cfg.Assets[i].FeederStart = st
		cfg.Assets[i].Interval = iv
		end := uint64(0)
		if i == 2 && r.Intn(2) == 0 {
			// EndBlock must not fall inside a window
			k := uint64(3 + r.Intn(4))
			end = st + k*iv + uint64(maxNonce) + uint64(r.Intn(int(iv)-maxNonce))
		}
		cfg.Assets[i].EndBlock = end
		feeders[feederOf[i]] = &oFeeder{id: feederOf[i], token: uint64(i + 1), start: st, interval: iv, end: end, startRound: 1, dec: cfg.Assets[i].PriceDec}
	}
	return cfg, feeders, maxNonce
}

func runOracle(j Job) *Result {
	res := NewResult()
	c12, c13 := mon.NewStats("C12"), mon.NewStats("C13")
	c09 := mon.NewStats("C09")
	for i := j.From; i < j.To; i++ {
		hist := fmt.Sprintf("oracle:%d:%d", j.Seed, i)
		r := rand.New(rand.NewSource(j.Seed*32452843 + int64(i)))
		cfg, feeders, maxNonce := oracleConfig(r)
		c, err := sim.NewChain(cfg)
		if err != nil {
			res.Inconclusive = "chain construction failed: " + err.Error()
			res.Notes = append(res.Notes, err.Error())
			continue
		}
		w := ops.NewWorld(c, r)
		w.Dt = 7 * time.Second
		for k := 0; k < 3; k++ {
			w.AddStaker(101, sim.NewAccount(fmt.Sprintf("ostaker%d", k)).Eth.Bytes())
		}
		o := &oracleRun{w: w, r: r, hist: hist, c12: mon.NewStats("C12"), c13: mon.NewStats("C13"), feeders: feeders, maxNonce: maxNonce,
			cur: map[uint64]*oRound{}, closed: map[uint64]uint64{}, outsider: sim.NewConsKey("outsider"), tainted: map[uint64]string{}}
		for _, op := range w.Opers {
			if len(op.Keys) > 0 {
				o.vals = append(o.vals, op.Keys[0])
			}
		}
		o.res = res
		if cfg.ChainID != sim.DefaultConfig(1, nil).ChainID {
			o.paramUser = cfg.Accounts[2]
		}
		o.noTaintClasses = i%3 == 0 || j.Variant == "notaint" // a third of the histories stay free of the two recorded memory-mutation triggers
		m9 := mon.NewC09(hist)
		m9.NormMem = normDigest
		w.Monitors = append(w.Monitors, m9)
		w.KeepSnaps = false
		nBlocks := 50 + r.Intn(40)
		if j.Tier == "thorough" {
			nBlocks = 80 + r.Intn(80)
		}
		o.run(nBlocks)
		res.Histories++
		res.Steps += int64(len(w.Steps))
		res.Blocks += c.Height()
		for _, st := range w.Steps {
			if strings.HasPrefix(st.Kind, "price") {
				k := st.Kind
				if st.Ack {
					k += ":ack"
				} else {
					k += ":fail"
				}
				res.Counters[k]++
			}
		}
		for _, mp := range w.MonitorPanics {
			res.Inconclusive = "monitor panic: " + mp
		}
		if w.Dead && len(c.Panics) > 0 {
			p := c.Panics[len(c.Panics)-1]
			res.Notes = append(res.Notes, fmt.Sprintf("%s halted in %s: %s", hist, p.Phase, p.Value))
			res.Counters["dead-histories"]++
		}
		if len(c12.Samples) < 3 {
			var fs []map[string]interface{}
			for _, f := range feeders {
				fs = append(fs, map[string]interface{}{"feeder": f.id, "start": f.start, "interval": f.interval, "end": f.end, "decimal": f.dec})
			}
			var txs []interface{}
			for _, st := range w.Steps {
				if strings.HasPrefix(st.Kind, "price") && len(txs) < 10 {
					txs = append(txs, st)
				}
			}
			s := map[string]interface{}{"history": hist, "max_nonce": maxNonce, "feeders": fs, "validators": len(o.vals), "first_price_txs": txs}
			c12.Sample(s)
			c13.Sample(s)
		}
		c12.Merge(o.c12)
		c13.Merge(o.c13)
		c09.Merge(m9.S)
		if j.Verbose {
			for _, st := range w.Steps {
				fmt.Printf("  %3d h=%d %-14s ack=%v %v %s\n", st.I, st.Height, st.Kind, st.Ack, st.P, trunc80(st.Err))
			}
		}
	}
	res.AddStats(c12)
	res.AddStats(c13)
	res.AddStats(c09)
	return res
}

func trunc80(s string) string {
	if len(s) > 100 {
		return s[:100]
	}
	return s
}

// ---------------------------------------------------------------------------------------------------------

func (o *oracleRun) honestPrice(f *oFeeder, based uint64) (string, string) {
	det := 1000 + based
	if o.scatter {
		// every report names a source round of its own but carries the same value: no ⟨source, round, value⟩ ever
		// gathers more than one validator
		o.scatterN++
		h := sha256.Sum256([]byte(fmt.Sprintf("%s-%d-%d", o.hist, f.id, based)))
		v := new(big.Int).SetBytes(h[:6])
		v.Add(v, big.NewInt(1))
		return v.String(), fmt.Sprint(500000 + based*1000 + o.scatterN%1000)
	}
	if o.drift {
		defer func() {
			if o.seenDets == nil {
				o.seenDets = map[string][]uint64{}
			}
			key := fmt.Sprintf("%d/%d", f.id, based)
			for _, d := range o.seenDets[key] {
				if d == det {
					return
				}
			}
			o.seenDets[key] = append(o.seenDets[key], det)
		}()
		// a lagging validator reports a source round that others reported in an earlier block of this window
		if prev := o.seenDets[fmt.Sprintf("%d/%d", f.id, based)]; len(prev) > 0 && o.r.Intn(2) == 0 {
			det = prev[o.r.Intn(len(prev))]
			h := sha256.Sum256([]byte(fmt.Sprintf("%s-%d-%d", o.hist, f.id, det)))
			v := new(big.Int).SetBytes(h[:6])
			v.Add(v, big.NewInt(1))
			return v.String(), fmt.Sprint(det)
		}
		// the source's own round advances every second block: validators that report in different blocks of a window
		// report different source rounds, and a validator that reports again reports the newer one
		det = 100000 + based*16 + ((uint64(o.w.C.Height())-based)/2)%16
	}
	h := sha256.Sum256([]byte(fmt.Sprintf("%s-%d-%d", o.hist, f.id, det)))
	v := new(big.Int).SetBytes(h[:6])
	v.Add(v, big.NewInt(1))
	return v.String(), fmt.Sprint(det)
}

func (o *oracleRun) ts(offset time.Duration) string {
	return o.w.C.Header.Time.UTC().Add(offset).Format("2006-01-02 15:04:05")
}

type priceCase struct {
	class    string
	key      *sim.ConsKey
	opts     sim.OracleTxOpts
	msgs     []*oracletypes.MsgCreatePrice
	sigValid bool
}

func (o *oracleRun) mkMsg(k *sim.ConsKey, f *oFeeder, based uint64, nonce int32, price, detID string, dec int32, tsOff time.Duration) *oracletypes.MsgCreatePrice {
	return &oracletypes.MsgCreatePrice{
		Creator: sim.OracleCreator(k), FeederID: f.id, BasedBlock: based, Nonce: nonce,
		Prices: []*oracletypes.PriceSource{{SourceID: 1, Prices: []*oracletypes.PriceTimeDetID{{Price: price, Decimal: dec, Timestamp: o.ts(tsOff), DetID: detID}}}},
	}
}

func (o *oracleRun) nextNonce(raw sim.Raw, k *sim.ConsKey, feeder uint64) int32 {
	n := sim.OracleNonces(raw)
	if m, ok := n[sim.OracleValidatorKey(k)]; ok {
		if v, ok2 := m[feeder]; ok2 {
			return int32(v) + 1
		}
	}
	return 1
}

func (o *oracleRun) run(nBlocks int) {
	w := o.w
	o.leaver = -1
	o.silent = []int{35, 35, 60, 80}[o.r.Intn(4)]
	o.drift = o.r.Intn(3) == 0
	o.scatter = !o.drift && o.r.Intn(4) == 0
	if !w.Start() {
		return
	}
	o.afterBegin()
	for b := 0; b < nBlocks && !w.Dead; b++ {
		h := uint64(w.C.Height())
		open := oraclekeeper.VerifOpenRounds()
		// transactions of this block
		var fids []uint64
		for id := range o.feeders {
			fids = append(fids, id)
		}
		sort.Slice(fids, func(a, b int) bool { return fids[a] < fids[b] })
		updateLate := false
		if o.paramUser != nil && b > 2 && o.r.Intn(7) == 0 {
			if updateLate = o.r.Intn(2) == 0; !updateLate {
				o.paramUpdate(h, fids)
			}
		}
		for _, fid := range fids {
			f := o.feeders[fid]
			based, isOpen := open[fid]
			if !isOpen {
				// occasionally submit outside the window
				if o.r.Intn(6) == 0 {
					k := o.vals[o.r.Intn(len(o.vals))]
					var lastBased uint64
					if h > f.start {
						lastBased = h - (h-f.start)%f.interval
					}
					p, d := o.honestPrice(f, lastBased)
					o.deliver(priceCase{class: "outside-window", key: k, sigValid: true, msgs: []*oracletypes.MsgCreatePrice{o.mkMsg(k, f, lastBased, o.nextNonce(w.Last.Raw, k, fid), p, d, f.dec, 0)}})
				}
				continue
			}
			price, det := o.honestPrice(f, based)
			order := o.r.Perm(len(o.vals))
			for _, vi := range order {
				k := o.vals[vi]
				if o.r.Intn(100) < o.silent {
					continue // this validator stays silent in this block
				}
				nonce := o.nextNonce(w.Last.Raw, k, fid)
				if o.drift || o.scatter {
					price, det = o.honestPrice(f, based)
				}
				pc := priceCase{class: "honest", key: k, sigValid: true}
				msg := o.mkMsg(k, f, based, nonce, price, det, f.dec, 0)
				switch x := o.r.Intn(100); {
				case x < 52:
				case x < 58:
					pc.class = "conflicting-price"
					msg.Prices[0].Prices[0].Price = new(big.Int).Add(mustBig(price), big.NewInt(int64(1+o.r.Intn(3)))).String()
				case x < 62:
					pc.class = "other-det-id"
					msg.Prices[0].Prices[0].DetID = fmt.Sprint(1000 + based + uint64(1+o.r.Intn(2)))
				case x < 66:
					pc.class = "several-det-ids"
					msg.Prices[0].Prices = append(msg.Prices[0].Prices, &oracletypes.PriceTimeDetID{Price: price, Decimal: f.dec, Timestamp: o.ts(0), DetID: fmt.Sprint(999 + based)})
					switch o.r.Intn(4) {
					case 0:
						// only a later entry is malformed: every reported price must pass the checks, not just the first
						pc.class = "several-det-ids|later-wrong-decimal"
						msg.Prices[0].Prices[1].Decimal = f.dec + 1
					case 1:
						pc.class = "several-det-ids|later-future-timestamp"
						msg.Prices[0].Prices[1].Timestamp = o.ts(time.Duration(6+o.r.Intn(100)) * time.Second)
					}
				case x < 70:
					pc.class = "wrong-base-block"
					msg.BasedBlock = based + uint64(1+o.r.Intn(2))
					if o.r.Intn(2) == 0 && based > 0 {
						msg.BasedBlock = based - 1
					}
				case x < 74:
					pc.class = "nonce-skipped"
					msg.Nonce = nonce + 1
				case x < 77:
					pc.class = "nonce-replayed"
					if nonce > 1 {
						msg.Nonce = nonce - 1
					} else {
						msg.Nonce = 0
					}
				case x < 79:
					pc.class = "nonce-above-max"
					msg.Nonce = int32(o.maxNonce + 1)
				case x < 82:
					pc.class = "wrong-decimal"
					msg.Prices[0].Prices[0].Decimal = f.dec + 1
				case x < 85:
					pc.class = "future-timestamp"
					msg.Prices[0].Prices[0].Timestamp = o.ts(time.Duration(6+o.r.Intn(100)) * time.Second)
				case x < 87:
					pc.class = "timestamp-just-inside"
					msg.Prices[0].Prices[0].Timestamp = o.ts(5 * time.Second)
				case x < 88:
					pc.class = "bad-source"
					msg.Prices[0].SourceID = 2
				case x < 89:
					// the rule's source plus one more entry: the reserved source 0 without a source round, or the same
					// source once more with another value
					pc.class = "extra-source"
					extra := &oracletypes.PriceSource{SourceID: uint64(o.r.Intn(2)), Prices: []*oracletypes.PriceTimeDetID{{Price: new(big.Int).Add(mustBig(price), big.NewInt(int64(100+o.r.Intn(900)))).String(), Decimal: f.dec, Timestamp: o.ts(0)}}}
					if extra.SourceID == 1 {
						extra.Prices[0].DetID = fmt.Sprint(3000 + based)
					}
					if o.r.Intn(2) == 0 {
						msg.Prices = append(msg.Prices, extra)
					} else {
						msg.Prices = append([]*oracletypes.PriceSource{extra}, msg.Prices...)
					}
				case x < 91:
					pc.class = "oversized"
					pc.opts.Memo = strings.Repeat("x", 1000)
				case x < 93:
					pc.class = "forged-signature"
					pc.opts.GarbageSig = true
					pc.sigValid = false
				case x < 95:
					pc.class = "signed-by-other-key"
					pc.opts.SignWith = o.outsider.Priv
					pc.sigValid = false
				case x < 96:
					pc.class = "wrong-chain-id-signature"
					pc.opts.ChainID = "exocore_233-2"
					pc.sigValid = false
				case x < 97:
					pc.class = "empty-signature"
					pc.opts.NoSignature = true
					pc.sigValid = false
				case x < 98:
					pc.class = "non-numeric-price"
					msg.Prices[0].Prices[0].Price = "12x4"
				default:
					pc.class = "two-messages"
					m2 := o.mkMsg(k, f, based, nonce+1, price, fmt.Sprint(2000+based), f.dec, 0)
					pc.msgs = []*oracletypes.MsgCreatePrice{msg, m2}
				}
				if o.noTaintClasses && (pc.class == "two-messages" || pc.class == "non-numeric-price") {
					pc.class, pc.msgs = "honest", nil
					msg.Prices[0].Prices[0].Price = price
				}
				if pc.msgs == nil {
					pc.msgs = []*oracletypes.MsgCreatePrice{msg}
				}
				if o.r.Intn(7) == 0 {
					o.check(pc, o.r.Intn(3) == 0)
				}
				o.deliver(pc)
				if w.Dead {
					return
				}
			}
		}
		// non-validator traffic and unknown feeders
		if o.r.Intn(4) == 0 && len(fids) > 0 {
			f := o.feeders[fids[o.r.Intn(len(fids))]]
			based := open[f.id]
			p, d := o.honestPrice(f, based)
			o.deliver(priceCase{class: "non-validator", key: o.outsider, sigValid: true, msgs: []*oracletypes.MsgCreatePrice{o.mkMsg(o.outsider, f, based, 1, p, d, f.dec, 0)}})
		}
		if o.r.Intn(8) == 0 {
			k := o.vals[o.r.Intn(len(o.vals))]
			ghost := &oFeeder{id: uint64(7 + o.r.Intn(3)), dec: 0}
			o.deliver(priceCase{class: "unknown-feeder", key: k, sigValid: true, msgs: []*oracletypes.MsgCreatePrice{o.mkMsg(k, ghost, h, 1, "5", "1", 0, 0)}})
		}
		if updateLate && !w.Dead {
			o.paramUpdate(h, fids)
		}
		// stake changes that move the validator set at the next epoch end
		if o.r.Intn(9) == 0 {
			s := w.Stakers[len(w.Stakers)-1-o.r.Intn(3)]
			op := w.Opers[o.r.Intn(len(w.Opers))]
			amt := sdkmath.NewInt(int64(1_000_000 * (1 + o.r.Intn(60))))
			if st := w.Deposit(s, w.Assets[0], amt); st.Ack {
				w.Delegate(s, w.Assets[0], op, amt)
			}
		}
		// a third of the histories: one validator (never the first) opts out; at the next epoch end it leaves the
		// validator set, but its key keeps reporting (a former validator)
		if o.leaver < 0 && len(w.Opers) > 2 && b > 6 && o.r.Intn(12) == 0 {
			o.leaver = 1 + o.r.Intn(len(w.Opers)-1)
			if o.r.Intn(3) != 0 {
				o.leaver = 0 // this history keeps its validators
			} else if st := w.OptOut(w.Opers[o.leaver], w.AVSAddr); !st.Ack {
				o.leaver = 0
			}
		}
		// end of block
		pre := w.Last
		st := w.EndBlock()
		if w.Dead {
			return
		}
		o.afterEnd(pre, st)
		for fid, based := range oraclekeeper.VerifOpenRounds() {
			if o.repeatKeys[fmt.Sprintf("%d/%d", fid, based)] {
				o.repeatReports++ // a restart point at which an open round holds two reports of one validator from two blocks
			}
		}
		dt := w.Dt
		if o.r.Intn(10) == 0 {
			dt = 30 * time.Second
		}
		w.NextBlock(dt)
		if w.Dead {
			return
		}
		o.afterBegin()
	}
}

// paramUpdate sends one MsgUpdateParams that touches a feeder's schedule: an end block for a running feeder (outside
// every window, inside a window, exactly on a round boundary, in the past) or a new feeder that resumes a token
// whose feeder has ended (with the round id the chain's own rule demands, or another). What the chain accepts is
// what the reference model follows; the round-id and close rules of C12 then judge the consequences.
func (o *oracleRun) paramUpdate(h uint64, fids []uint64) {
	w, r := o.w, o.r
	var running, ended []*oFeeder
	for _, fid := range fids {
		f := o.feeders[fid]
		switch {
		case o.superseded[fid]:
		case f.end > 0 && h >= f.end:
			ended = append(ended, f)
		case f.start <= h:
			running = append(running, f)
		}
	}
	send := func(kind string, p map[string]string, tfs ...*oracletypes.TokenFeeder) *ops.Step {
		st := w.CosmosStep(kind, o.paramUser, sim.CosmosTxOpts{}, p, &oracletypes.MsgUpdateParams{Authority: o.paramUser.Acc.String(), Params: oracletypes.Params{TokenFeeders: tfs}})
		if o.res != nil {
			o.res.Counters[fmt.Sprintf("%s|%s|ack=%v", kind, p["variant"], st.Ack)]++
		}
		return st
	}
	if len(ended) > 0 && (len(running) == 0 || r.Intn(2) == 0) {
		f := ended[r.Intn(len(ended))]
		latest := f.startRound + (f.end-f.start)/f.interval // the chain's own formula for the last round id
		tf := &oracletypes.TokenFeeder{TokenID: f.token, RuleID: 1, StartRoundID: latest + 1, StartBaseBlock: h + 1 + uint64(r.Intn(5)), Interval: uint64(2*o.maxNonce + r.Intn(6))}
		variant := "next-round-id"
		switch r.Intn(8) {
		case 0:
			variant, tf.StartRoundID = "round-id-repeated", latest
		case 1:
			variant, tf.StartRoundID = "round-id-skipped", latest+2
		case 2:
			variant, tf.StartBaseBlock = "start-not-in-future", h
		case 3:
			variant, tf.Interval = "interval-too-short", uint64(2*o.maxNonce-1)
		}
		st := send("param_resume_feeder", map[string]string{"variant": variant, "token": fmt.Sprint(f.token), "start": fmt.Sprint(tf.StartBaseBlock), "interval": fmt.Sprint(tf.Interval), "round": fmt.Sprint(tf.StartRoundID)}, tf)
		if st.Ack {
			fs := w.C.App.OracleKeeper.GetParams(w.C.Ctx()).TokenFeeders
			id := uint64(len(fs) - 1)
			o.feeders[id] = &oFeeder{id: id, token: f.token, start: tf.StartBaseBlock, interval: tf.Interval, startRound: tf.StartRoundID, dec: f.dec}
			if o.superseded == nil {
				o.superseded = map[uint64]bool{}
			}
			o.superseded[f.id] = true
			if t := o.tainted[f.id]; t != "" {
				o.tainted[id] = t // the token's round ids were already off (recorded memory-mutation findings)
			}
		}
		return
	}
	if len(running) == 0 {
		return
	}
	f := running[r.Intn(len(running))]
	iv, mn := f.interval, uint64(o.maxNonce)
	nb := f.start + ((h-f.start)/iv+1)*iv // the next round boundary after this block
	k := uint64(r.Intn(3))
	var end uint64
	variant := ""
	switch r.Intn(10) {
	case 0, 1:
		variant, end = "on-a-round-boundary", nb+k*iv
	case 2, 3:
		variant, end = "inside-a-window", nb+k*iv+uint64(r.Intn(int(mn)))
	case 4:
		variant, end = "not-in-the-future", h-uint64(r.Intn(2))
	default:
		variant, end = "outside-every-window", nb+k*iv+mn+uint64(r.Intn(int(iv-mn)))
		if r.Intn(3) == 0 {
			// in the running interval, after its window
			if last := nb - iv; last+mn > h {
				end = last + mn + uint64(r.Intn(int(iv-mn)))
			} else if h+1 < nb {
				end = h + 1 + uint64(r.Intn(int(nb-h-1)))
			}
		}
	}
	tfs := []*oracletypes.TokenFeeder{{TokenID: f.token, EndBlock: end}}
	if len(running) > 1 && r.Intn(4) == 0 {
		// a second entry in the same message that is refused: the whole update has to be without effect, although the
		// first entry was already applied to the handler's working copy
		g := running[r.Intn(len(running))]
		if g != f {
			variant += "+second-entry-refused"
			tfs = append(tfs, &oracletypes.TokenFeeder{TokenID: g.token, EndBlock: h})
		}
	}
	st := send("param_feeder_end", map[string]string{"variant": variant, "feeder": fmt.Sprint(f.id), "end": fmt.Sprint(end)}, tfs...)
	if st.Ack {
		f.end = end
	}
}

func mustBig(s string) *big.Int {
	b, ok := new(big.Int).SetString(s, 10)
	if !ok {
		return big.NewInt(0)
	}
	return b
}

func (o *oracleRun) afterBegin() {}

// validator powers as the oracle sees them (from the stored validator set, identical to the aggregator's view
// after each EndBlock)
func powersOf(s *sim.Snap) (map[string]*big.Int, *big.Int) {
	m := map[string]*big.Int{}
	t := new(big.Int)
	for ca, v := range s.Dog.Validators {
		bz, _ := hex.DecodeString(ca)
		m[sdk.ConsAddress(bz).String()] = big.NewInt(v.Power)
		t.Add(t, big.NewInt(v.Power))
	}
	return m, t
}

func nextRoundIDs(raw sim.Raw) (map[uint64]uint64, map[uint64]map[uint64]oracletypes.PriceTimeRound) {
	next := map[uint64]uint64{}
	rounds := map[uint64]map[uint64]oracletypes.PriceTimeRound{}
	pfx := oracletypes.PricesKeyPrefix
	for k, v := range raw["oracle"] {
		if !strings.HasPrefix(k, pfx) {
			continue
		}
		rest := k[len(pfx):]
		if len(rest) < 9 {
			continue
		}
		tid := sdk.BigEndianToUint64([]byte(rest[:8]))
		sub := rest[9:]
		if sub == string(oracletypes.PricesNextRoundIDKey) {
			next[tid] = sdk.BigEndianToUint64(v)
		} else if len(sub) == 9 {
			var p oracletypes.PriceTimeRound
			if p.Unmarshal(v) == nil {
				if rounds[tid] == nil {
					rounds[tid] = map[uint64]oracletypes.PriceTimeRound{}
				}
				rounds[tid][sdk.BigEndianToUint64([]byte(sub[:8]))] = p
			}
		}
	}
	return next, rounds
}

func storedNext(raw sim.Raw, token uint64) uint64 {
	n, _ := nextRoundIDs(raw)
	if v, ok := n[token]; ok {
		return v
	}
	return 1
}

// deliver sends the case through DeliverTx and judges it (C13) and any finalisation (C12).
func (o *oracleRun) deliver(pc priceCase) {
	w := o.w
	var msgs []sdk.Msg
	for _, m := range pc.msgs {
		msgs = append(msgs, m)
	}
	bz, err := w.C.OracleTx(pc.key, pc.opts, msgs...)
	if err != nil {
		return
	}
	pre := w.Last
	digPre := string(oraclekeeper.VerifOracleDump())
	w.KeepSnaps = true
	st := w.RawTxStep("price_tx", bz, map[string]string{"class": pc.class, "validator": pc.key.Name, "feeder": fmt.Sprint(pc.msgs[0].FeederID), "based": fmt.Sprint(pc.msgs[0].BasedBlock), "nonce": fmt.Sprint(pc.msgs[0].Nonce), "price": pc.msgs[0].Prices[0].Prices[0].Price, "det": pc.msgs[0].Prices[0].Prices[0].DetID, "bytes": fmt.Sprint(len(bz))}, nil)
	post := st.Post
	w.KeepSnaps = false
	st.Pre, st.Post = nil, nil
	digPost := string(oraclekeeper.VerifOracleDump())
	o.judgeTx("deliver", pc, st, pre, post, digPre, digPost, len(bz))
	_ = normDigest
}

// check sends the case through CheckTx / ReCheckTx.
func (o *oracleRun) check(pc priceCase, recheck bool) {
	w := o.w
	var msgs []sdk.Msg
	for _, m := range pc.msgs {
		msgs = append(msgs, m)
	}
	bz, err := w.C.OracleTx(pc.key, pc.opts, msgs...)
	if err != nil {
		return
	}
	pre := w.Last
	digPre := string(oraclekeeper.VerifOracleDump())
	mode := "check"
	if recheck {
		mode = "recheck"
	}
	w.KeepSnaps = true
	st := w.CheckTxStep("price_"+mode, bz, recheck, map[string]string{"class": pc.class, "validator": pc.key.Name, "feeder": fmt.Sprint(pc.msgs[0].FeederID), "nonce": fmt.Sprint(pc.msgs[0].Nonce)}, nil)
	post := st.Post
	w.KeepSnaps = false
	st.Pre, st.Post = nil, nil
	digPost := string(oraclekeeper.VerifOracleDump())
	s := o.c13
	s.Eval("checktx-leaves-deliver-state")
	if d := sim.DiffRaw(pre.Raw, post.Raw, 3); len(d) > 0 || digPre != digPost {
		s.Violate("checktx-changed-deliver-state", mode, o.hist, st.I, "%s of a %s price tx changed the deliver state / consensus-side oracle memory: %v digestChanged=%v", mode, pc.class, d, digPre != digPost)
	}
	sender := o.senderClass(pre, pc.key)
	outcome := "rejected"
	if st.Ack {
		outcome = "admitted"
	}
	s.Case(fmt.Sprintf("%s|%s|%s|%s", mode, sender, pc.class, outcome))
	if st.Ack {
		// necessary conditions that do not depend on the (node-local) check-state nonce
		s.Eval("checktx-admission")
		if sender != "validator" {
			s.Violate("admitted-non-validator", mode, o.hist, st.I, "%s admitted a price tx from a %s (%v)", mode, sender, st.P)
		}
		if !pc.sigValid {
			s.Violate("admitted-bad-signature", mode+"|"+pc.class, o.hist, st.I, "%s admitted a price tx with an invalid signature (%s)", mode, pc.class)
		}
		if len(bz) > 1000 {
			s.Violate("admitted-oversized", mode, o.hist, st.I, "%s admitted a %d-byte price tx", mode, len(bz))
		}
		for _, m := range pc.msgs {
			if int(m.Nonce) > o.maxNonce || m.Nonce < 1 {
				s.Violate("admitted-nonce-out-of-range", mode, o.hist, st.I, "%s admitted nonce %d (max %d)", mode, m.Nonce, o.maxNonce)
			}
		}
	}
}

func (o *oracleRun) senderClass(s *sim.Snap, k *sim.ConsKey) string {
	ca := strings.ToUpper(hex.EncodeToString(k.ConsAddr()))
	if _, ok := s.Dog.Validators[ca]; ok {
		return "validator"
	}
	for _, v := range o.vals {
		if v == k {
			return "former-validator"
		}
	}
	return "non-validator"
}

// normDigest removes from an H1 dump what is "that validator's nonce" bookkeeping in memory (the per-round nonce
// filter) and workers that hold no submission at all (allocated on first contact), so that a transaction which is
// admitted but not counted may touch exactly these and nothing else.
func normDigest(d string) string {
	var m map[string]interface{}
	if json.Unmarshal([]byte(d), &m) != nil {
		return d
	}
	if agc, ok := m["agc"].(map[string]interface{}); ok {
		if aggs, ok := agc["aggregators"].(map[string]interface{}); ok {
			for id, wv := range aggs {
				w, ok := wv.(map[string]interface{})
				if !ok {
					continue
				}
				empty := true
				if f, ok := w["filter"].(map[string]interface{}); ok {
					delete(f, "nonce")
					if src, ok := f["source"].(map[string]interface{}); ok && len(src) > 0 {
						empty = false
					}
				}
				if c, ok := w["calculator"].(map[string]interface{}); ok {
					if ds, ok := c["ds"].(map[string]interface{}); ok && len(ds) > 0 {
						empty = false
					}
				}
				if a, ok := w["aggregator"].(map[string]interface{}); ok {
					if reps, ok := a["reports"].([]interface{}); ok && len(reps) > 0 {
						empty = false
					}
				}
				if sealed, _ := w["sealed"].(bool); sealed {
					empty = false
				}
				if empty {
					delete(aggs, id)
				}
			}
		}
	}
	bz, _ := json.Marshal(m)
	return string(bz)
}

func failCause(st *ops.Step, nmsgs int) string {
	switch {
	case strings.Contains(st.Err, "nil pointer"):
		return "handler-panic-nil-price"
	case strings.Contains(st.Err, "recovered"):
		return "handler-panic"
	case nmsgs > 1 && strings.Contains(st.Err, "message index: 1"):
		return "later-message-of-the-tx-failed"
	}
	return "handler-error"
}

func onlyNonceKeyChanged(diffs []sim.Diff, valKey string) bool {
	if len(diffs) != 1 {
		return false
	}
	d := diffs[0]
	return d.Store == "oracle" && strings.Contains(d.Key, oracletypes.NonceKeyPrefix[1:]) && strings.Contains(d.Key, valKey)
}

func (o *oracleRun) judgeTx(mode string, pc priceCase, st *ops.Step, pre, post *sim.Snap, digPre, digPost string, size int) {
	s := o.c13
	vk := sim.OracleValidatorKey(pc.key)
	nPre, nPost := sim.OracleNonces(pre.Raw), sim.OracleNonces(post.Raw)
	sender := o.senderClass(pre, pc.key)
	// observed outcome
	admittedMsgs := 0
	for _, m := range pc.msgs {
		_ = m
	}
	dn := map[uint64]int{}
	for f, v := range nPost[vk] {
		dn[f] = int(v) - int(nPre[vk][f])
	}
	for f := range nPre[vk] {
		if _, ok := nPost[vk][f]; !ok {
			dn[f] = -1000 // entry removed (round closed in this tx)
		}
	}
	for _, d := range dn {
		if d > 0 {
			admittedMsgs += d
		}
	}
	finalised := false
	for _, m := range pc.msgs {
		f := o.feeders[m.FeederID]
		if f != nil && storedNext(post.Raw, f.token) > storedNext(pre.Raw, f.token) {
			finalised = true
		}
	}
	outcome := "not-admitted"
	switch {
	case st.Ack:
		outcome = "counted"
	case admittedMsgs > 0 || finalised:
		outcome = "admitted-not-counted"
	}
	s.Eval("outcome")
	s.Case(fmt.Sprintf("%s|%s|%s|%s", mode, sender, pc.class, outcome))
	if outcome == "counted" && !finalised {
		// workload coverage: the same validator counted in two different blocks of one still-open round
		key := fmt.Sprintf("%s/%d/%d", pc.key.Name, pc.msgs[0].FeederID, pc.msgs[0].BasedBlock)
		if o.countedAt == nil {
			o.countedAt = map[string]int64{}
		}
		if h0, ok := o.countedAt[key]; ok && h0 != st.Height {
			if o.repeatKeys == nil {
				o.repeatKeys = map[string]bool{}
			}
			o.repeatKeys[fmt.Sprintf("%d/%d", pc.msgs[0].FeederID, pc.msgs[0].BasedBlock)] = true
		}
		o.countedAt[key] = st.Height
	}
	diffs := sim.DiffRaw(pre.Raw, post.Raw, 6)

	switch outcome {
	case "not-admitted":
		s.Eval("not-admitted-changes-nothing")
		if len(diffs) > 0 || digPre != digPost {
			s.Violate("rejected-but-state-changed", pc.class, o.hist, st.I, "price tx (%s) was not admitted (%s) but changed: %v memoryChanged=%v", pc.class, trunc80(st.Err), diffs, digPre != digPost)
		}
	case "admitted-not-counted":
		s.Eval("admitted-not-counted-only-nonce")
		memChanged := normDigest(digPre) != normDigest(digPost)
		if !onlyNonceKeyChanged(diffs, vk) || memChanged {
			site := "store"
			if onlyNonceKeyChanged(diffs, vk) {
				site = "memory-only"
			}
			s.Violate("not-counted-but-more-than-nonce-changed", site+"|"+failCause(st, len(pc.msgs)), o.hist, st.I, "price tx (%s) admitted but not counted (%s): changes %v memoryChanged=%v", pc.class, trunc80(st.Err), diffs, digPre != digPost)
		}
	}
	if outcome != "counted" && normDigest(digPre) != normDigest(digPost) {
		for _, m := range pc.msgs {
			if o.feeders[m.FeederID] != nil && o.tainted[m.FeederID] == "" {
				o.tainted[m.FeederID] = pc.class
				if o.firstTaintHeight == 0 {
					o.firstTaintHeight = st.Height
				}
			}
		}
	}
	if outcome == "not-admitted" {
		return
	}
	// necessary conditions for admission, per message
	for _, m := range pc.msgs {
		f := o.feeders[m.FeederID]
		var rd *oRound
		if f != nil {
			rd = o.cur[f.id]
		}
		s.Eval("admission-conditions")
		bad := func(rule, f string, a ...interface{}) {
			s.Violate(rule, pc.class, o.hist, st.I, "%s price tx admitted (%s): %s; %v", mode, outcome, fmt.Sprintf(f, a...), st.P)
		}
		if sender != "validator" {
			bad("admitted-non-validator", "sender is a %s", sender)
		}
		if !pc.sigValid {
			bad("admitted-bad-signature", "signature class %s", pc.class)
		}
		if size > 1000 {
			bad("admitted-oversized", "%d bytes", size)
		}
		if rd == nil || !rd.open || rd.final {
			bad("admitted-without-open-round", "feeder %d has no open round in the reference model", m.FeederID)
		}
		prev := int32(nPre[vk][m.FeederID])
		if _, has := nPre[vk][m.FeederID]; !has {
			bad("admitted-without-nonce-entry", "no nonce entry for feeder %d", m.FeederID)
		}
		if len(pc.msgs) == 1 && (m.Nonce != prev+1 || int(m.Nonce) > o.maxNonce) {
			bad("admitted-wrong-nonce", "nonce %d after %d (max %d)", m.Nonce, prev, o.maxNonce)
		}
		if rd != nil {
			rd.admits[vk]++
			if rd.admits[vk] > o.maxNonce {
				bad("traffic-bound-exceeded", "%d admitted transactions for one validator, feeder and round (max %d)", rd.admits[vk], o.maxNonce)
			}
		}
	}
	if outcome != "counted" {
		return
	}
	// necessary conditions for counting + tally for C12
	for _, m := range pc.msgs {
		f := o.feeders[m.FeederID]
		if f == nil {
			s.Violate("counted-unknown-feeder", pc.class, o.hist, st.I, "counted a submission for unknown feeder %d", m.FeederID)
			continue
		}
		rd := o.cur[f.id]
		if rd == nil {
			continue
		}
		s.Eval("counting-conditions")
		bad := func(rule, fm string, a ...interface{}) {
			s.Violate(rule, pc.class, o.hist, st.I, "price tx counted: %s; %v", fmt.Sprintf(fm, a...), st.P)
		}
		if m.BasedBlock != rd.based {
			bad("counted-wrong-base-block", "base block %d, round is based on %d", m.BasedBlock, rd.based)
		}
		newDet := false
		if len(m.Prices) != 1 {
			bad("counted-source-list-differs-from-rule", "%d price sources, the feeder's rule lists exactly one", len(m.Prices))
		}
		for _, ps := range m.Prices {
			if ps.SourceID != 1 {
				bad("counted-wrong-source", "source %d", ps.SourceID)
			}
			for _, p := range ps.Prices {
				if p.Decimal != f.dec {
					bad("counted-wrong-decimal", "decimal %d, token has %d", p.Decimal, f.dec)
				}
				if t, err := time.ParseInLocation("2006-01-02 15:04:05", p.Timestamp, time.UTC); err != nil || t.After(o.w.C.Header.Time.UTC().Add(5*time.Second)) {
					bad("counted-future-timestamp", "timestamp %s at block time %s", p.Timestamp, o.w.C.Header.Time.UTC())
				}
				key := fmt.Sprintf("%s|%d|%s", vk, ps.SourceID, p.DetID)
				if !rd.seen[key] {
					newDet = true
					rd.seen[key] = true
					rd.subs = append(rd.subs, oSub{val: vk, power: rd.powers[vk], source: ps.SourceID, detID: p.DetID, price: p.Price})
				}
			}
		}
		if !newDet {
			bad("counted-without-new-source-round", "every source round of the message had already been reported by this validator")
		}
	}
	// finalisation (C12 soundness)
	judged := map[uint64]bool{}
	for _, m := range pc.msgs {
		f := o.feeders[m.FeederID]
		if f == nil || judged[f.id] {
			continue // one finalisation per feeder and transaction, however many messages the transaction carries
		}
		judged[f.id] = true
		if storedNext(post.Raw, f.token) > storedNext(pre.Raw, f.token) {
			o.judgeFinal(f, st, post)
		}
	}
}

func (o *oracleRun) judgeFinal(f *oFeeder, st *ops.Step, post *sim.Snap) {
	s := o.c12
	rd := o.cur[f.id]
	s.Eval("finalisation")
	if rd == nil || !rd.open {
		s.Violate("final-price-without-open-round", o.site(f.id, ""), o.hist, st.I, "token %d got a new round in a transaction although feeder %d has no open round", f.token, f.id)
		return
	}
	if rd.final {
		s.Violate("round-finalised-twice", o.site(f.id, ""), o.hist, st.I, "feeder %d round %d finalised twice", f.id, rd.id)
	}
	_, rounds := nextRoundIDs(post.Raw)
	stored, ok := rounds[f.token][rd.id]
	if !ok {
		s.Violate("final-price-wrong-round-id", o.site(f.id, ""), o.hist, st.I, "feeder %d: finalisation did not store round %d (stored rounds %v)", f.id, rd.id, keysOf(rounds[f.token]))
		return
	}
	// reporting and agreeing power from the monitor's own tally
	reporting := new(big.Int)
	seenVal := map[string]bool{}
	agree := map[string]*big.Int{}
	for _, sb := range rd.subs {
		if sb.power == nil {
			continue
		}
		if !seenVal[sb.val] {
			seenVal[sb.val] = true
			reporting.Add(reporting, sb.power)
		}
		k := fmt.Sprintf("%d|%s|%s", sb.source, sb.detID, sb.price)
		if agree[k] == nil {
			agree[k] = new(big.Int)
		}
		agree[k].Add(agree[k], sb.power)
	}
	exceeds := func(p *big.Int) bool {
		return new(big.Int).Mul(p, big.NewInt(3)).Cmp(new(big.Int).Mul(rd.total, big.NewInt(2))) > 0
	}
	if !exceeds(reporting) {
		s.Violate("final-price-without-reporting-supermajority", o.site(f.id, ""), o.hist, st.I, "feeder %d round %d finalised with reporting power %s of %s", f.id, rd.id, reporting, rd.total)
	}
	okPrice := false
	anyAgree := false
	conflicting := len(agree) > 1
	for k, p := range agree {
		if exceeds(p) {
			anyAgree = true
			if strings.HasSuffix(k, "|"+stored.Price) {
				okPrice = true
			}
		}
	}
	if !anyAgree {
		s.Violate("final-price-without-agreeing-supermajority", o.site(f.id, ""), o.hist, st.I, "feeder %d round %d finalised at %s but no ⟨source, round, value⟩ has more than 2/3 of %s: %v", f.id, rd.id, stored.Price, rd.total, agree)
	} else if !okPrice {
		s.Violate("final-price-not-the-agreed-value", o.site(f.id, ""), o.hist, st.I, "feeder %d round %d stored %s, agreed values %v", f.id, rd.id, stored.Price, agree)
	}
	if stored.Decimal != f.dec {
		s.Violate("final-price-decimal", "", o.hist, st.I, "stored decimal %d, token %d", stored.Decimal, f.dec)
	}
	rd.final, rd.open, rd.kind = true, false, "final"
	o.closed[f.id]++
	s.Case(fmt.Sprintf("close|final|%s|submitters=%d|conflicting=%v", splitClass(rd.powers, rd.total), minInt(len(seenVal), 5), conflicting))
}

func keysOf(m map[uint64]oracletypes.PriceTimeRound) []uint64 {
	var out []uint64
	for k := range m {
		out = append(out, k)
	}
	sort.Slice(out, func(a, b int) bool { return out[a] < out[b] })
	return out
}

func splitClass(p map[string]*big.Int, total *big.Int) string {
	maxP := new(big.Int)
	for _, v := range p {
		if v.Cmp(maxP) > 0 {
			maxP = v
		}
	}
	switch {
	case total.Sign() == 0:
		return "zero"
	case new(big.Int).Mul(maxP, big.NewInt(3)).Cmp(new(big.Int).Mul(total, big.NewInt(2))) > 0:
		return "one-dominates"
	case new(big.Int).Mul(maxP, big.NewInt(3)).Cmp(total) > 0:
		return "big-third"
	}
	return fmt.Sprintf("spread-%d", minInt(len(p), 6))
}

// afterEnd steps the reference round model for the block that just ended and compares the store.
func (o *oracleRun) afterEnd(pre *sim.Snap, st *ops.Step) {
	w := o.w
	s := o.c12
	post := w.Last
	h := uint64(st.Height)
	forced := st.EndBlock != nil && len(st.EndBlock.ValidatorUpdates) > 0
	powers, total := powersOf(post)
	var fids []uint64
	for id := range o.feeders {
		fids = append(fids, id)
	}
	sort.Slice(fids, func(a, b int) bool { return fids[a] < fids[b] })
	next, rounds := nextRoundIDs(post.Raw)
	nextPre, roundsPre := nextRoundIDs(pre.Raw)
	for _, fid := range fids {
		f := o.feeders[fid]
		rd := o.cur[fid]
		// 1. an open round closes by carrying the previous price forward
		if rd != nil && rd.open {
			kind := ""
			switch {
			case f.end > 0 && h >= f.end:
				kind = "feeder-end"
			case h-rd.based >= uint64(o.maxNonce):
				kind = "window-expiry"
			case forced:
				kind = "forced-seal"
			}
			if kind != "" {
				rd.open, rd.kind = false, kind
				o.closed[fid]++
				sub := map[string]bool{}
				for _, x := range rd.subs {
					sub[x.val] = true
				}
				s.Case(fmt.Sprintf("close|%s|%s|submitters=%d|conflicting=%v", kind, splitClass(rd.powers, rd.total), minInt(len(sub), 5), false))
				// carry-forward copies the previous price
				s.Eval("carry-forward")
				got, ok := rounds[f.token][rd.id]
				if !ok {
					s.Violate("round-not-closed", o.site(fid, kind), o.hist, st.I, "feeder %d round %d (based %d) should have closed by %s at block %d but no round %d is stored (next id %d)", fid, rd.id, rd.based, kind, h, rd.id, next[f.token])
				} else if prev, okp := roundsPre[f.token][rd.id-1]; okp && got.Price != prev.Price {
					s.Violate("carry-forward-changed-price", o.site(fid, kind), o.hist, st.I, "feeder %d round %d closed by %s with price %q, previous round had %q", fid, rd.id, kind, got.Price, prev.Price)
				}
			}
		}
		// 2. a new round opens on the interval boundary
		active := f.start <= h && (f.end == 0 || h < f.end)
		if active && (h-f.start)%f.interval == 0 {
			if rd != nil && rd.open {
				s.Violate("model-round-still-open-at-boundary", "", o.hist, st.I, "reference model: feeder %d round %d still open when the next one starts", fid, rd.id)
			}
			o.cur[fid] = &oRound{feeder: fid, based: h, id: f.startRound + (h-f.start)/f.interval, open: true, seen: map[string]bool{}, admits: map[string]int{}, total: total, powers: powers}
		} else if forced && o.cur[fid] != nil && o.cur[fid].open {
			_ = 0
		}
		// stored next round id: exactly one close per round, no gap, no repeat
		if o.superseded[fid] {
			continue // the token's round ids are judged through the feeder that resumed it
		}
		s.Eval("next-round-id")
		want := f.startRound + o.closed[fid]
		gotNext := uint64(1)
		if v, ok := next[f.token]; ok {
			gotNext = v
		}
		if gotNext != want {
			s.Violate("round-id-sequence", o.site(fid, gapOrRepeat(gotNext, want)), o.hist, st.I, "after block %d token %d has next round id %d, reference %d (closed rounds %d; before the block %d)", h, f.token, gotNext, want, o.closed[fid], nextPre[f.token])
			// resynchronise to report each divergence once
			if gotNext >= f.startRound {
				o.closed[fid] = gotNext - f.startRound
			}
		}
		// stored rounds are consecutive and bounded
		ids := keysOf(rounds[f.token])
		s.Eval("retention")
		if len(ids) > 100 {
			s.Violate("retention-exceeded", "", o.hist, st.I, "token %d retains %d rounds", f.token, len(ids))
		}
		for k := 1; k < len(ids); k++ {
			if ids[k] != ids[k-1]+1 {
				s.Violate("stored-rounds-not-consecutive", o.site(fid, ""), o.hist, st.I, "token %d stored round ids %v", f.token, ids)
				break
			}
		}
	}
	// the validator set seen by later rounds
	if forced {
		for _, rd := range o.cur {
			if rd.open {
				rd.powers, rd.total = powers, total
			}
		}
	}
}

func gapOrRepeat(got, want uint64) string {
	if got > want {
		return "ahead"
	}
	return "behind"
}
