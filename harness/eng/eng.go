// Package eng wires workloads and monitors into "engines": functions that run histories
// [from,to) of a job and return what the monitors observed.
package eng

import (
	"encoding/json"
	"fmt"
	"os"
	"sort"

	"verif/mon"
)

// Job is a unit of work handed to an engine (possibly in a child process).
type Job struct {
	Prop   string `json:"prop"`
	Engine string `json:"engine"`
	Tier   string `json:"tier"`
	Seed   int64  `json:"seed"`
	From   int    `json:"from"`
	To     int    `json:"to"`
	Out    string `json:"out,omitempty"`
	// Variant selects a sub-profile (engine specific)
	Variant string `json:"variant,omitempty"`
	Verbose bool   `json:"verbose,omitempty"`
	Scratch string `json:"scratch,omitempty"`
}

// Result is what a job observed.
type Result struct {
	Stats     map[string]mon.StatsJSON `json:"stats"`
	Histories int                      `json:"histories"`
	Steps     int64                    `json:"steps"`
	Blocks    int64                    `json:"blocks"`
	Counters  map[string]int64         `json:"counters"`
	Notes     []string                 `json:"notes,omitempty"`
	// Inconclusive: reason why this job cannot give a verdict (watchdog, hook not reached...)
	Inconclusive string `json:"inconclusive,omitempty"`
}

func NewResult() *Result {
	return &Result{Stats: map[string]mon.StatsJSON{}, Counters: map[string]int64{}}
}

func (r *Result) AddStats(s *mon.Stats) {
	j := s.ToJSON()
	if old, ok := r.Stats[j.Prop]; ok {
		a := mon.FromJSON(old)
		a.Merge(mon.FromJSON(j))
		j = a.ToJSON()
	}
	r.Stats[j.Prop] = j
}

func (r *Result) Merge(o *Result) {
	for _, s := range o.Stats {
		r.AddStats(mon.FromJSON(s))
	}
	r.Histories += o.Histories
	r.Steps += o.Steps
	r.Blocks += o.Blocks
	for k, v := range o.Counters {
		r.Counters[k] += v
	}
	r.Notes = append(r.Notes, o.Notes...)
	if o.Inconclusive != "" && r.Inconclusive == "" {
		r.Inconclusive = o.Inconclusive
	}
}

func (r *Result) Write(path string) error {
	bz, err := json.Marshal(r)
	if err != nil {
		return err
	}
	return os.WriteFile(path, bz, 0o644)
}

func ReadResult(path string) (*Result, error) {
	bz, err := os.ReadFile(path)
	if err != nil {
		return nil, err
	}
	r := NewResult()
	if err := json.Unmarshal(bz, r); err != nil {
		return nil, err
	}
	return r, nil
}

// Engine runs a job.
type Engine func(j Job) *Result

var engines = map[string]Engine{}

func Register(name string, e Engine) { engines[name] = e }

func Get(name string) (Engine, error) {
	e, ok := engines[name]
	if !ok {
		var ns []string
		for n := range engines {
			ns = append(ns, n)
		}
		sort.Strings(ns)
		return nil, fmt.Errorf("unknown engine %q (have %v)", name, ns)
	}
	return e, nil
}

// Plan says how a property is checked.
type Plan struct {
	Prop     string
	Engine   string
	Variant  string
	Quick    int // number of histories (engine-specific unit)
	Thorough int
	Level    string // evidence level
	Rule     string // how cases are generated and what makes one distinct/non-trivial
	Assume   []string
	MinCases int  // minimum distinct non-trivial classes for a conclusive verdict
	Serial   bool // engine manages its own children (do not shard)
}

var plans = map[string]Plan{}

func RegisterPlan(p Plan) { plans[p.Prop] = p }

func GetPlan(prop string) (Plan, bool) { p, ok := plans[prop]; return p, ok }

func Props() []string {
	var out []string
	for p := range plans {
		out = append(out, p)
	}
	sort.Strings(out)
	return out
}
