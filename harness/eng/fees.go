package eng

import (
	"fmt"
	"math/big"
	"math/rand"
	"strings"
	"time"

	sdkmath "cosmossdk.io/math"
	sdk "github.com/cosmos/cosmos-sdk/types"
	authtypes "github.com/cosmos/cosmos-sdk/x/auth/types"

	epochstypes "github.com/ExocoreNetwork/exocore/x/epochs/types"
	distrtypes "github.com/ExocoreNetwork/exocore/x/feedistribution/types"

	"verif/mon"
	"verif/ops"
	"verif/sim"
)

// fees engine (C17): validator sets with assorted powers and commission rates, stakers delegating to them,
// extra AVSs, random fee income (real transaction fees plus direct top-ups of the fee collector), community tax
// and epoch reward of all sizes, mint and distribution on equal or different identifiers.
func init() {
	Register("fees", runFees)
	RegisterPlan(Plan{Prop: "C17", Engine: "fees", Quick: 96, Thorough: 3000, Level: "exploration", MinCases: 8,
		Rule: "histories of 8-40 epochs (seeded PRNG): 1-5 validators with powers 1..600 and commission rates 0..100 %, 0-5 stakers per operator over 1-2 assets, 0-2 extra AVSs, community tax in {0, 3 %, random, 100 %}, epoch reward in {0, 1, default, large}, mint and distribution identifiers equal or different (minute/hour), fee income from real transaction fees and direct top-ups (including none). Every step is judged for supply change and solvency; every distribution epoch end for 'moved = booked', per-validator proportionality and commission split. Distinct = ⟨fees>0, total power>0, #validators, #stakers paid, tax class⟩ plus mint cases."})
}

func runFees(j Job) *Result {
	res := NewResult()
	c17 := mon.NewStats("C17")
	for i := j.From; i < j.To; i++ {
		hist := fmt.Sprintf("fees:%d:%d", j.Seed, i)
		r := rand.New(rand.NewSource(j.Seed*15485863 + int64(i)))
		nOps := 1 + r.Intn(5)
		stakes := make([]int64, nOps)
		for k := range stakes {
			stakes[k] = int64(1 + r.Intn(600))
		}
		cfg := sim.DefaultConfig(nOps, stakes)
		for k := range cfg.Operators {
			switch r.Intn(4) {
			case 0:
				cfg.Operators[k].Commission = sdk.ZeroDec()
			case 1:
				cfg.Operators[k].Commission = sdk.OneDec()
			default:
				cfg.Operators[k].Commission = sdk.NewDecWithPrec(int64(r.Intn(1000)), 3)
			}
		}
		switch r.Intn(4) {
		case 0:
			t := sdk.ZeroDec()
			cfg.CommunityTax = &t
		case 1:
			t := sdk.OneDec()
			cfg.CommunityTax = &t
		case 2:
			t := sdk.NewDecWithPrec(int64(r.Intn(1_000_000)), 6)
			cfg.CommunityTax = &t
		}
		switch r.Intn(4) {
		case 0:
			cfg.Mint.EpochReward = sdkmath.ZeroInt()
		case 1:
			cfg.Mint.EpochReward = sdkmath.OneInt()
		case 2:
			cfg.Mint.EpochReward = sdkmath.NewIntWithDecimal(int64(1+r.Intn(999)), 20+r.Intn(10))
		}
		if r.Intn(3) == 0 {
			cfg.Mint.EpochIdentifier = epochstypes.HourEpochID
		}
		if r.Intn(3) == 0 {
			// validator powers are refreshed only once per hour: many distribution epochs see stale powers
			cfg.Dogfood.EpochIdentifier = epochstypes.HourEpochID
		}
		zeroPowerVariant := r.Intn(6) == 0
		c, err := sim.NewChain(cfg)
		if err != nil {
			res.Inconclusive = "chain construction failed: " + err.Error()
			continue
		}
		w := ops.NewWorld(c, r)
		w.IgnoreValSetErr = true
		c.Watch = append(c.Watch, authtypes.NewModuleAddress(authtypes.FeeCollectorName), authtypes.NewModuleAddress(distrtypes.ModuleName))
		for k := 0; k < 2+r.Intn(5); k++ {
			w.AddStaker(101, sim.NewAccount(fmt.Sprintf("fstaker%d", k)).Eth.Bytes())
		}
		m := mon.NewC17(hist)
		w.Monitors = []ops.Monitor{m}
		if !w.Start() {
			res.Notes = append(res.Notes, hist+" did not start")
			continue
		}
		// stakers delegate to operators (assets 0 and 1)
		for _, s := range w.Stakers[nOps:] {
			for _, a := range []*ops.Asset{w.Assets[0], w.Assets[2]} {
				if a.NST && r.Intn(2) == 0 {
					continue
				}
				amt := sdkmath.NewInt(int64(1_000_000 * (1 + r.Intn(300))))
				if st := w.Deposit(s, a, amt); st.Ack {
					for n := 0; n < 1+r.Intn(2); n++ {
						w.Delegate(s, a, w.Opers[r.Intn(nOps)], amt.QuoRaw(int64(2+r.Intn(3))))
					}
				}
			}
		}
		// optional extra AVSs that operators opt into
		nAVS := r.Intn(3)
		for k := 0; k < nAVS; k++ {
			owner := cfg.Accounts[4+k]
			assets := [][]string{{w.Assets[0].ID}, {w.Assets[0].ID, w.Assets[2].ID}, {w.Assets[2].ID}}[r.Intn(3)]
			spec := ops.AVSSpec{Owner: owner, Name: fmt.Sprintf("favs%d", k), Assets: assets, MinSelf: 0,
				EpochID: "minute", Unbonding: 2, TaskAddr: sim.NewAccount(fmt.Sprintf("ftask%d", k)).Eth}
			if st := w.RegisterAVS(spec); st.Ack {
				for _, o := range w.Opers {
					if r.Intn(2) == 0 {
						w.OptIn(o, owner.Eth.String(), nil)
					}
				}
			}
		}
		nEpochs := 8 + r.Intn(10)
		if j.Tier == "thorough" {
			nEpochs = 10 + r.Intn(30)
		}
		collector := authtypes.NewModuleAddress(authtypes.FeeCollectorName)
		for e := 0; e < nEpochs && !w.Dead; e++ {
			// fee income
			switch r.Intn(5) {
			case 0: // none
			case 1, 2: // direct top-up
				amt := sdkmath.NewIntFromBigInt(randBigInt(r, 1+r.Intn(80)))
				ctx := c.Ctx()
				_ = c.App.BankKeeper.SendCoins(ctx, cfg.Gateway.Acc, collector, sdk.NewCoins(sdk.NewCoin("hua", amt)))
				w.Last = c.Snapshot()
			default: // real transactions paying fees
				for n := 0; n < 1+r.Intn(4); n++ {
					s := w.Stakers[nOps+r.Intn(len(w.Stakers)-nOps)]
					w.Deposit(s, w.Assets[0], sdkmath.NewInt(int64(1+r.Intn(1000))))
				}
			}
			// every delegator of one operator leaves within the epoch (its validator keeps last epoch's power)
			if r.Intn(5) == 0 || (zeroPowerVariant && e == nEpochs/2) {
				var victims []*ops.Oper
				if zeroPowerVariant && e == nEpochs/2 {
					victims = w.Opers // everybody: total power drops to zero
				} else if nOps > 1 {
					victims = []*ops.Oper{w.Opers[1+r.Intn(nOps-1)]}
				}
				for _, o := range victims {
					for _, s := range w.Stakers {
						for _, a := range w.Assets {
							if pos := ops.Position(w.Last.Ledger, s.ID, a.ID, o.Addr()); pos.IsPositive() {
								ctx := c.Ctx()
								if c.App.BankKeeper.GetBalance(ctx, cfg.Gateway.Acc, "hua").Amount.IsPositive() {
									w.Undelegate(s, a, o, pos)
								}
							}
						}
					}
				}
			}
			if r.Intn(4) == 0 && len(w.Stakers) > nOps {
				s := w.Stakers[nOps+r.Intn(len(w.Stakers)-nOps)]
				o := w.Opers[r.Intn(nOps)]
				pos := ops.Position(w.Last.Ledger, s.ID, w.Assets[0].ID, o.Addr())
				if pos.IsPositive() {
					w.Undelegate(s, w.Assets[0], o, pos.QuoRaw(2).AddRaw(1))
				}
			}
			// cross one minute epoch (sometimes an hour)
			dt := 61 * time.Second
			if r.Intn(12) == 0 {
				dt = 61 * time.Minute
			}
			w.Advance(dt)
			if r.Intn(3) == 0 {
				w.Advance(time.Second)
			}
		}
		res.Histories++
		res.Steps += int64(len(w.Steps))
		res.Blocks += c.Height()
		for _, mp := range w.MonitorPanics {
			res.Inconclusive = "monitor panic: " + mp
		}
		if w.Dead && len(c.Panics) > 0 {
			pp := c.Panics[len(c.Panics)-1]
			res.Notes = append(res.Notes, fmt.Sprintf("%s halted: %s", hist, pp.Value))
			res.Counters["dead-histories"]++
			// an epoch end that panics never moves / books the fees (and stops the chain): when the panic comes out of
			// the mint or distribution code it is a violation of this property, not just a dead history
			if site := feeFrame(pp.Stack); site != "" {
				m.S.Violate("epoch-end-distribution-panicked", site, hist, len(w.Steps), "%s panicked while minting / distributing at an epoch end: %s", pp.Phase, pp.Value)
			}
		}
		if len(c17.Samples) < 3 {
			c17.Sample(map[string]interface{}{"history": hist, "validators": nOps, "stakes": stakes, "reward": cfg.Mint.EpochReward.String(), "mint_identifier": cfg.Mint.EpochIdentifier, "extra_avs": nAVS, "epochs": nEpochs})
		}
		c17.Merge(m.S)
		if j.Verbose {
			for _, st := range w.Steps {
				fmt.Printf("  %3d h=%d %-16s ack=%v %v %s\n", st.I, st.Height, st.Kind, st.Ack, st.P, st.Err)
			}
		}
	}
	res.AddStats(c17)
	return res
}

func randBigInt(r *rand.Rand, bits int) *big.Int {
	b := new(big.Int).Lsh(big.NewInt(1), uint(bits))
	x := new(big.Int).Rand(r, b)
	return x.Add(x, big.NewInt(1))
}

// feeFrame returns the innermost x/feedistribution or x/exomint frame of a panic stack ("" if none).
func feeFrame(stack string) string {
	for _, ln := range strings.Split(stack, "\n") {
		for _, mod := range []string{"x/feedistribution/keeper.", "x/exomint/keeper."} {
			if i := strings.Index(ln, mod); i >= 0 {
				f := ln[i:]
				if j := strings.Index(f, "("); j > 0 {
					f = f[:j]
				}
				return strings.TrimSuffix(f, "(...)")
			}
		}
	}
	return ""
}
