package eng

import (
	"bytes"
	"crypto/sha256"
	"encoding/json"
	"fmt"
	"math/big"
	"math/rand"
	"os"
	"sort"
	"strings"
	"time"

	sdkmath "cosmossdk.io/math"
	sdk "github.com/cosmos/cosmos-sdk/types"
	authtypes "github.com/cosmos/cosmos-sdk/x/auth/types"
	govtypes "github.com/cosmos/cosmos-sdk/x/gov/types"
	"github.com/ethereum/go-ethereum/common"
	"github.com/ethereum/go-ethereum/crypto"

	assetstypes "github.com/ExocoreNetwork/exocore/x/assets/types"
	avstypes "github.com/ExocoreNetwork/exocore/x/avs/types"
	delegationtypes "github.com/ExocoreNetwork/exocore/x/delegation/types"
	dogfoodtypes "github.com/ExocoreNetwork/exocore/x/dogfood/types"
	exominttypes "github.com/ExocoreNetwork/exocore/x/exomint/types"
	feedisttypes "github.com/ExocoreNetwork/exocore/x/feedistribution/types"
	operatortypes "github.com/ExocoreNetwork/exocore/x/operator/types"
	oraclekeeper "github.com/ExocoreNetwork/exocore/x/oracle/keeper"
	oracletypes "github.com/ExocoreNetwork/exocore/x/oracle/types"
	rewardtypes "github.com/ExocoreNetwork/exocore/x/reward/types"
	exoslashtypes "github.com/ExocoreNetwork/exocore/x/slash/types"

	"verif/evm"
	"verif/mon"
	"verif/ops"
	"verif/sim"
)

// authz engine (C10): an identity matrix executed in states reached by a random ledger prefix. For every
// state-changing entry point a well-formed payload is built from the current state; it is first sent under every
// identity that is NOT the rightful caller (each must be rejected and leave every restaking store and the oracle's
// memory byte-identical) and only then by the rightful caller, which must succeed: that makes the case
// non-trivial (the payload was valid, the rejection was due to identity alone) and keeps the state unchanged
// while the wrong callers try.
func init() {
	Register("authz", runAuthz)
	RegisterPlan(Plan{Prop: "C10", Engine: "authz", Quick: 64, Thorough: 1600, Level: "exploration", MinCases: 60,
		Rule: "identity matrix in states reached by 8-60 random ledger steps (gateway = EOA in 3/5, forwarding contract in 2/5 of the histories): gateway-gated precompile methods x {other EOA, operator EOA, non-gateway contract called by the gateway EOA, non-gateway contract called by another EOA, deployer EOA of the gateway contract}; AVS methods x {calling contract without that AVS, non-owner sender argument, forwarding contract}; operator / delegation messages x {signed by another key, unsigned, other chain id, wrong sequence, appended to the attacker's own transaction}; price transactions x {forged signature, foreign signature under the validator's public key, outsider key with the validator as creator, non-validator, unsigned, other chain id} x {CheckTx, ReCheckTx, DeliverTx}; parameter updates of 7 modules x {signer names itself authority, governance named but signed by someone else}. Every wrong caller must fail and change nothing; the rightful twin sent afterwards must succeed (otherwise the case is 'not established' and not counted). Distinct = <entry point, identity> pairs whose rightful twin succeeded."})
}

type authzRun struct {
	w    *ops.World
	r    *rand.Rand
	s    *mon.Stats
	hist string
	// established[entry] = the rightful caller succeeded with the same payload
	pending map[string][]string // entry -> identities judged before the rightful twin ran
	other   common.Address      // forwarding contract that is not the gateway
	user    *sim.Account
	user2   *sim.Account
	notEst  map[string]string
	gw      string // "|gateway=eoa" / "|gateway=contract" for gateway-gated entries
}

// wrong judges one attempt under a non-rightful identity.
func (a *authzRun) wrong(entry, ident string, st *ops.Step) {
	if st == nil {
		return
	}
	a.s.Eval("wrong-caller")
	a.pending[entry] = append(a.pending[entry], ident)
	site := entry + "|" + ident
	if st.Ack {
		a.s.Violate("wrong-caller-accepted", site, a.hist, st.I, "%s succeeded for identity %s; params %v", entry, ident, st.P)
		return
	}
	if st.Pre == nil || st.Post == nil {
		return
	}
	pre, post := sim.Raw{}, sim.Raw{}
	for _, n := range sim.RestakingStores {
		pre[n], post[n] = st.Pre.Raw[n], st.Post.Raw[n]
	}
	if d := sim.DiffRaw(pre, post, 4); len(d) > 0 {
		a.s.Violate("wrong-caller-changed-state", site, a.hist, st.I, "%s by %s was rejected (%s) but changed %+v", entry, ident, trunc80(st.Err+st.Panic), d)
	}
	if normDigest(st.Pre.OracleMem) != normDigest(st.Post.OracleMem) {
		a.s.Violate("wrong-caller-changed-oracle-memory", site, a.hist, st.I, "%s by %s was rejected (%s) but the oracle's in-memory state changed", entry, ident, trunc80(st.Err+st.Panic))
	}
}

// right records the rightful twin; only then do the identities judged for this entry count as distinct cases.
func (a *authzRun) right(entry string, st *ops.Step) bool {
	a.s.Eval("rightful-twin")
	if st == nil || !st.Ack {
		why := "not applicable in this state"
		if st != nil {
			why = trunc80(st.Err + st.Panic)
		}
		a.notEst[entry] = why
		delete(a.pending, entry)
		return false
	}
	for _, id := range a.pending[entry] {
		a.s.Case(entry + "|" + id + a.gw)
	}
	delete(a.pending, entry)
	return true
}

func pad32b(b []byte) []byte {
	out := make([]byte, 32)
	copy(out, b)
	return out
}

// gated runs one gateway-gated precompile method under all wrong identities, then rightfully.
func (a *authzRun) gated(entry, pc string, to common.Address, method string, args ...interface{}) bool {
	w := a.w
	p := map[string]string{"entry": entry}
	a.gw = "|gateway=eoa"
	if w.Proxy != nil {
		a.gw = "|gateway=contract"
	}
	defer func() { a.gw = "" }()
	a.wrong(entry, "other-eoa", w.CallFrom(entry, a.user, pc, to, method, p, args...))
	a.wrong(entry, "operator-eoa", w.CallFrom(entry, w.Opers[0].Acct, pc, to, method, p, args...))
	a.wrong(entry, "other-contract<-gateway-eoa", w.CallVia(entry, w.C.Gen.Cfg.Gateway, a.other, pc, to, method, p, args...))
	a.wrong(entry, "other-contract<-other-eoa", w.CallVia(entry, a.user2, a.other, pc, to, method, p, args...))
	if w.Proxy != nil {
		a.wrong(entry, "deployer-eoa-of-gateway-contract", w.CallFrom(entry, w.C.Gen.Cfg.Gateway, pc, to, method, p, args...))
	}
	return a.right(entry, w.GatewayCall(entry, pc, to, method, p, args...))
}

func runAuthz(j Job) *Result {
	res := NewResult()
	st := mon.NewStats("C10")
	for i := j.From; i < j.To; i++ {
		hist := fmt.Sprintf("authz:%d:%d", j.Seed, i)
		r := rand.New(rand.NewSource(j.Seed*15485863 + int64(i)))
		o := ops.DefaultLedgerOpts()
		o.NOps = 2 + r.Intn(3)
		o.ExtraOps = 1
		o.NStakers = 3 + r.Intn(3)
		o.Steps = 8 + r.Intn(52)
		o.Profile = []string{"", "exit", "keys", "power"}[r.Intn(4)]
		o.HostileAmt = false
		o.OracleStart = uint64(2 + r.Intn(5))
		// the main network after an upgrade that bumps the revision of its chain id: still the main network, governance
		// is still the only authority
		o.ChainID = []string{"", "", "exocore_233-2", "exocore_233-247"}[i%4]
		w, err := ops.BuildLedgerWorld(j.Seed*31+7, i, o)
		if err != nil {
			res.Inconclusive = "world construction failed: " + err.Error()
			continue
		}
		w.KeepSnaps = false
		w.RunLedger(o)
		if w.Dead {
			res.Counters["prefix-halted"]++
			why := fmt.Sprintf("validator-set error: %v", w.C.ValSetErr)
			if len(w.C.Panics) > 0 {
				pp := w.C.Panics[len(w.C.Panics)-1]
				why = pp.Phase + ": " + trunc80(pp.Value)
			}
			res.Notes = append([]string{hist + " prefix halted: " + why}, res.Notes...)
			continue
		}
		w.KeepSnaps = true
		a := &authzRun{w: w, r: r, s: st, hist: hist, pending: map[string][]string{}, notEst: map[string]string{}}
		a.matrix(i)
		res.Histories++
		res.Steps += int64(len(w.Steps))
		res.Blocks += w.C.Height()
		var ks []string
		for k := range a.notEst {
			ks = append(ks, k)
		}
		sort.Strings(ks)
		for _, k := range ks {
			res.Counters["not-established:"+k]++
			if k == "reward.claimReward" || k == "slash.submitSlash" {
				continue // not supported yet by the code base: the keeper returns an error for every caller
			}
			if len(res.Notes) < 12 {
				res.Notes = append(res.Notes, fmt.Sprintf("%s: rightful twin of %s did not succeed: %s", hist, k, a.notEst[k]))
			}
		}
		if w.Dead {
			res.Counters["dead-histories"]++
			why := fmt.Sprintf("validator-set error: %v", w.C.ValSetErr)
			if len(w.C.Panics) > 0 {
				pp := w.C.Panics[len(w.C.Panics)-1]
				why = pp.Phase + ": " + trunc80(pp.Value)
				if os.Getenv("VERIF_AUTHZ_DEBUG") != "" {
					fmt.Println("AUTHZ-DEBUG halt stack:", pp.Stack)
				}
			}
			res.Notes = append([]string{hist + " halted: " + why}, res.Notes...)
		}
		if len(st.Samples) < 2 {
			st.Sample(map[string]interface{}{"history": hist, "prefix_steps": o.Steps, "profile": o.Profile, "proxy_gateway": w.Proxy != nil, "matrix_steps": len(w.Steps) - o.Steps})
		}
	}
	res.AddStats(st)
	return res
}

func (a *authzRun) matrix(idx int) {
	w, r := a.w, a.r
	cfg := w.C.Gen.Cfg
	a.user, a.user2 = cfg.Accounts[4], cfg.Accounts[5]
	// 2/5 of the histories: the configured gateway is a forwarding contract
	if w.Proxy == nil && idx%5 < 2 {
		w.UseProxyGateway(evm.ProxyRuntime(), evm.Deploy(evm.ProxyRuntime()))
		w.ProxyMode = 0
	}
	// a second forwarding contract that is NOT the gateway
	other, dst := w.DeployContract(a.user, evm.Deploy(evm.ProxyRuntime()))
	if !dst.Ack {
		a.notEst["setup:other-contract"] = dst.Err
		return
	}
	a.other = other
	tag := fmt.Sprintf("%s-%d", a.hist, r.Intn(1<<30))

	// ---- gateway-gated precompile methods -------------------------------------------------------------
	lst := w.Assets[0]
	stk := w.AddStaker(lst.Lz, sim.NewAccount("authz-staker-"+tag).Eth.Bytes())
	op := w.Opers[0]
	lz := uint32(lst.Lz)
	if a.gated("assets.depositLST", "assets", sim.AddrAssets, "depositLST", lz, pad32b(lst.Addr), pad32b(stk.Addr), big.NewInt(1000)) {
		a.gated("assets.withdrawLST", "assets", sim.AddrAssets, "withdrawLST", lz, pad32b(lst.Addr), pad32b(stk.Addr), big.NewInt(300))
		nonce := func() uint64 { w.LzNonce++; return w.LzNonce + 1_000_000 }
		if a.gated("delegation.delegate", "delegation", sim.AddrDelegation, "delegate", lz, nonce(), pad32b(lst.Addr), pad32b(stk.Addr), []byte(op.Addr()), big.NewInt(400)) {
			a.gated("delegation.undelegate", "delegation", sim.AddrDelegation, "undelegate", lz, nonce(), pad32b(lst.Addr), pad32b(stk.Addr), []byte(op.Addr()), big.NewInt(100))
		}
	}
	if a.gated("delegation.associateOperatorWithStaker", "delegation", sim.AddrDelegation, "associateOperatorWithStaker", lz, pad32b(stk.Addr), []byte(op.Addr())) {
		a.gated("delegation.dissociateOperatorFromStaker", "delegation", sim.AddrDelegation, "dissociateOperatorFromStaker", lz, pad32b(stk.Addr))
	}
	newChain := uint32(7000 + r.Intn(1000))
	a.gated("assets.registerOrUpdateClientChain", "assets", sim.AddrAssets, "registerOrUpdateClientChain", newChain, uint8(20), "chain-"+tag, "meta", "ECDSA")
	tok := common.HexToAddress(fmt.Sprintf("0x%040x", 0x900000+r.Intn(1<<20)))
	if a.gated("assets.registerToken", "assets", sim.AddrAssets, "registerToken", lz, pad32b(tok.Bytes()), uint8(8), "Tok"+tag[len(tag)-6:], "meta", fmt.Sprintf("ATK%d,Ethereum,8", r.Intn(1<<20))) {
		a.gated("assets.updateToken", "assets", sim.AddrAssets, "updateToken", lz, pad32b(tok.Bytes()), "new meta "+tag)
	}
	for _, as := range w.Assets {
		if as.NST {
			ns := w.AddStaker(as.Lz, sim.NewAccount("authz-nst-"+tag).Eth.Bytes())
			pk := pad32b([]byte{0x01, 0x02, 0x03, byte(4 + r.Intn(200))})
			if a.gated("assets.depositNST", "assets", sim.AddrAssets, "depositNST", uint32(as.Lz), pk, pad32b(ns.Addr), big.NewInt(32_000)) {
				a.gated("assets.withdrawNST", "assets", sim.AddrAssets, "withdrawNST", uint32(as.Lz), pk, pad32b(ns.Addr), big.NewInt(1_000))
			}
			break
		}
	}
	a.gated("reward.claimReward", "reward", sim.AddrReward, "claimReward", lz, pad32b(lst.Addr), pad32b(stk.Addr), big.NewInt(1))
	a.gated("slash.submitSlash", "slash", sim.AddrSlash, "submitSlash", lz, pad32b(lst.Addr), pad32b(stk.Addr), big.NewInt(1), []byte(op.Addr()), pad32b(a.other.Bytes()), "0.1", "proof")

	// ---- AVS precompile: the AVS is the calling contract, the sender argument must be a listed owner -------
	avsA, avsB := sim.NewAccount("authz-avsA-"+tag), sim.NewAccount("authz-avsB-"+tag)
	w.Fund(avsA)
	w.Fund(avsB)
	owner, nonOwner := a.user, a.user2
	regArgsO := func(sender *sim.Account, name string, minSelf uint64, owners []string) []interface{} {
		return []interface{}{sender.Eth, name, uint64(1), avsA.Eth, common.HexToAddress("0x0000000000000000000000000000000000000902"), common.HexToAddress("0x0000000000000000000000000000000000000903"),
			owners, []string{lst.ID}, uint64(50), minSelf, "minute", []uint64{1, 1, 5, 5}}
	}
	regArgs := func(sender *sim.Account, name string, minSelf uint64) []interface{} {
		return regArgsO(sender, name, minSelf, []string{owner.Acc.String()})
	}
	avsBefore := sim.ParseAVS(w.Last.Raw)
	p := map[string]string{}
	a.wrong("avs.registerAVS", "avs-contract|sender-not-in-owner-list", w.CallFrom("avs.registerAVS", avsA, "avs", sim.AddrAVS, "registerAVS", p, regArgs(nonOwner, "avs-"+tag, 0)...))
	if a.right("avs.registerAVS", w.CallFrom("avs.registerAVS", avsA, "avs", sim.AddrAVS, "registerAVS", p, regArgs(owner, "avs-"+tag, 0)...)) {
		a.boundTo("avs.registerAVS", avsBefore, avsA)
		avsBefore = sim.ParseAVS(w.Last.Raw)
		a.wrong("avs.updateAVS", "other-contract-without-avs|owner-sender", w.CallFrom("avs.updateAVS", avsB, "avs", sim.AddrAVS, "updateAVS", p, regArgs(owner, "avs2-"+tag, 1)...))
		a.wrong("avs.updateAVS", "avs-contract|non-owner-sender", w.CallFrom("avs.updateAVS", avsA, "avs", sim.AddrAVS, "updateAVS", p, regArgs(nonOwner, "avs2-"+tag, 1)...))
		a.wrong("avs.updateAVS", "avs-contract|non-owner-sender-naming-itself-owner", w.CallFrom("avs.updateAVS", avsA, "avs", sim.AddrAVS, "updateAVS", p, regArgsO(nonOwner, "avs2-"+tag, 1, []string{nonOwner.Acc.String()})...))
		a.wrong("avs.updateAVS", "avs-contract|non-owner-sender-adding-itself-to-the-owners", w.CallFrom("avs.updateAVS", avsA, "avs", sim.AddrAVS, "updateAVS", p, regArgsO(nonOwner, "avs2-"+tag, 1, []string{owner.Acc.String(), nonOwner.Acc.String()})...))
		a.wrong("avs.updateAVS", "forwarding-contract<-avs-eoa|owner-sender", w.CallVia("avs.updateAVS", avsA, a.other, "avs", sim.AddrAVS, "updateAVS", p, regArgs(owner, "avs2-"+tag, 1)...))
		if a.right("avs.updateAVS", w.CallFrom("avs.updateAVS", avsA, "avs", sim.AddrAVS, "updateAVS", p, regArgs(owner, "avs2-"+tag, 0)...)) {
			a.boundTo("avs.updateAVS", avsBefore, avsA)
		}
		// a second AVS with another owner (nonOwner), whose address sorts before avsA's: it will try to claim avsA's
		// task contract by an update; whether or not that is accepted (C20 judges it), nonOwner must not become able to
		// create tasks from avsA's task contract (the 'avs-contract|non-owner-sender' case below)
		var avsC *sim.Account
		for k := 0; k < 64 && avsC == nil; k++ {
			if c := sim.NewAccount(fmt.Sprintf("authz-avsC-%s-%d", tag, k)); bytes.Compare(c.Eth.Bytes(), avsA.Eth.Bytes()) < 0 {
				avsC = c
			}
		}
		argsC := func(taskAddr common.Address) []interface{} {
			return []interface{}{nonOwner.Eth, "avsC-" + tag, uint64(1), taskAddr, common.HexToAddress("0x0000000000000000000000000000000000000902"), common.HexToAddress("0x0000000000000000000000000000000000000903"),
				[]string{nonOwner.Acc.String()}, []string{lst.ID}, uint64(50), uint64(0), "minute", []uint64{1, 1, 5, 5}}
		}
		regC := false
		if avsC != nil {
			w.Fund(avsC)
			regC = w.CallFrom("avs.registerAVS(second)", avsC, "avs", sim.AddrAVS, "registerAVS", p, argsC(avsC.Eth)...).Ack
		}
		// task creation needs voting power: an operator with stake opts in and an epoch passes
		if w.OptIn(op, avsA.Eth.String(), nil).Ack {
			if regC {
				w.OptIn(op, avsC.Eth.String(), nil)
			}
			for k := 0; k < 9 && !w.Dead; k++ {
				w.Advance(w.Dt)
			}
			if regC {
				st := w.CallFrom("avs.updateAVS(claim-foreign-task-contract)", avsC, "avs", sim.AddrAVS, "updateAVS", p, argsC(avsA.Eth)...)
				a.s.Case(fmt.Sprintf("avs.updateAVS|second-avs-claims-task-contract-of-first|ack=%v", st.Ack))
			}
			if os.Getenv("VERIF_AUTHZ_DEBUG") != "" {
				v, err := w.C.App.OperatorKeeper.GetAVSUSDValue(w.C.Ctx(), avsA.Eth.String())
				fmt.Println("AUTHZ-DEBUG avs usd value", v, err, "dt", w.Dt, "opstate", ops.OperState(w, op))
			}
			task := func(sender *sim.Account) []interface{} {
				return []interface{}{sender.Eth, "task-" + tag, []byte("hash-" + tag), uint64(2), uint64(2), uint64(60), uint64(2)}
			}
			a.wrong("avs.createTask", "other-contract-without-avs|owner-sender", w.CallFrom("avs.createTask", avsB, "avs", sim.AddrAVS, "createTask", p, task(owner)...))
			a.wrong("avs.createTask", "avs-contract|non-owner-sender", w.CallFrom("avs.createTask", avsA, "avs", sim.AddrAVS, "createTask", p, task(nonOwner)...))
			a.wrong("avs.createTask", "forwarding-contract<-avs-eoa|owner-sender", w.CallVia("avs.createTask", avsA, a.other, "avs", sim.AddrAVS, "createTask", p, task(owner)...))
			if a.right("avs.createTask", w.CallFrom("avs.createTask", avsA, "avs", sim.AddrAVS, "createTask", p, task(owner)...)) {
				a.taskResults(avsA, op, tag)
			}
			w.OptOut(op, avsA.Eth.String())
		}
		avsBefore = sim.ParseAVS(w.Last.Raw)
		// (deregistration is accepted only while fewer epochs than the unbonding period have passed since registration)
		a.wrong("avs.deregisterAVS", "other-contract-without-avs|owner-sender", w.CallFrom("avs.deregisterAVS", avsB, "avs", sim.AddrAVS, "deregisterAVS", p, owner.Eth, "avs2-"+tag))
		a.wrong("avs.deregisterAVS", "avs-contract|non-owner-sender", w.CallFrom("avs.deregisterAVS", avsA, "avs", sim.AddrAVS, "deregisterAVS", p, nonOwner.Eth, "avs2-"+tag))
		a.wrong("avs.deregisterAVS", "forwarding-contract<-avs-eoa|owner-sender", w.CallVia("avs.deregisterAVS", avsA, a.other, "avs", sim.AddrAVS, "deregisterAVS", p, owner.Eth, "avs2-"+tag))
		if a.right("avs.deregisterAVS", w.CallFrom("avs.deregisterAVS", avsA, "avs", sim.AddrAVS, "deregisterAVS", p, owner.Eth, "avs2-"+tag)) {
			a.boundTo("avs.deregisterAVS", avsBefore, avsA)
		}
	}
	if w.Dead {
		return
	}

	// ---- operator and delegation messages: only the signer ------------------------------------------------
	victim := sim.NewAccount("authz-op-" + tag)
	attacker := a.user2
	w.Fund(victim)
	signed := func(entry string, msg sdk.Msg, attackerMsg sdk.Msg) bool {
		pp := map[string]string{"entry": entry}
		a.wrong(entry, "signed-by-another-key", w.CosmosStep(entry, victim, sim.CosmosTxOpts{SignWith: attacker.Priv}, pp, msg))
		a.wrong(entry, "unsigned", w.CosmosStep(entry, victim, sim.CosmosTxOpts{NoSignature: true}, pp, msg))
		a.wrong(entry, "signed-for-another-chain-id", w.CosmosStep(entry, victim, sim.CosmosTxOpts{ChainID: "exocore_233-7"}, pp, msg))
		a.wrong(entry, "wrong-sequence", w.CosmosStep(entry, victim, sim.CosmosTxOpts{SeqDelta: 3}, pp, msg))
		if attackerMsg != nil {
			a.wrong(entry, "appended-to-attackers-own-transaction", w.CosmosStep(entry, attacker, sim.CosmosTxOpts{}, pp, attackerMsg, msg))
		}
		return a.right(entry, w.CosmosStep(entry, victim, sim.CosmosTxOpts{}, pp, msg))
	}
	regMsg := func(acct *sim.Account) *operatortypes.RegisterOperatorReq {
		return &operatortypes.RegisterOperatorReq{FromAddress: acct.Acc.String(), Info: &operatortypes.OperatorInfo{
			EarningsAddr: acct.Acc.String(), ApproveAddr: acct.Acc.String(), OperatorMetaInfo: acct.Name, Commission: ops.StakingCommission()}}
	}
	dog := w.AVSAddr
	attackerOp := sim.NewAccount("authz-attacker-op-" + tag)
	w.Fund(attackerOp)
	own := regMsg(attackerOp)
	attacker = attackerOp
	if signed("operator.RegisterOperator", regMsg(victim), own) {
		k1, k2 := sim.NewConsKey("authz-k1-"+tag), sim.NewConsKey("authz-k2-"+tag)
		if signed("operator.OptIntoAVS", &operatortypes.OptIntoAVSReq{FromAddress: victim.Acc.String(), AvsAddress: dog, PublicKeyJSON: k1.W.ToJSON()}, own) {
			signed("operator.SetConsKey", &operatortypes.SetConsKeyReq{Address: victim.Acc.String(), AvsAddress: dog, PublicKeyJSON: k2.W.ToJSON()}, own)
			signed("operator.OptOutOfAVS", &operatortypes.OptOutOfAVSReq{FromAddress: victim.Acc.String(), AvsAddress: dog}, own)
		}
	}
	attacker = a.user2
	// native-token delegation messages
	for _, s := range w.Stakers {
		if s.Acct == nil || w.Native == nil {
			continue
		}
		kv := []delegationtypes.KeyValue{{Key: op.Addr(), Value: &delegationtypes.ValueField{Amount: sdkmath.NewInt(1000)}}}
		own := []delegationtypes.KeyValue{{Key: op.Addr(), Value: &delegationtypes.ValueField{Amount: sdkmath.NewInt(1)}}}
		mk := func(from string, kvs []delegationtypes.KeyValue, un bool) sdk.Msg {
			base := &delegationtypes.DelegationIncOrDecInfo{FromAddress: from, PerOperatorAmounts: kvs}
			if un {
				return &delegationtypes.MsgUndelegation{AssetID: w.Native.ID, BaseInfo: base}
			}
			return &delegationtypes.MsgDelegation{AssetID: w.Native.ID, BaseInfo: base}
		}
		victim = s.Acct
		if victim.Acc.Equals(attacker.Acc) {
			attacker = a.user
		}
		if signed("delegation.MsgDelegation", mk(victim.Acc.String(), kv, false), mk(attacker.Acc.String(), own, false)) {
			signed("delegation.MsgUndelegation", mk(victim.Acc.String(), kv[:1], true), nil)
		}
		break
	}

	// ---- price transactions: only the consensus key of the validator they are attributed to ---------------
	a.prices(tag)

	// ---- parameter updates: only the governance authority (mainnet chain id) -----------------------------
	gov := authtypes.NewModuleAddress(govtypes.ModuleName).String()
	ctx := w.C.Ctx()
	app := w.C.App
	type pu struct {
		name string
		mk   func(authority string) sdk.Msg
	}
	var pus []pu
	if pp, err := app.AssetsKeeper.GetParams(ctx); err == nil {
		pus = append(pus, pu{"assets", func(au string) sdk.Msg { return &assetstypes.MsgUpdateParams{Authority: au, Params: *pp} }})
	}
	dp := app.StakingKeeper.GetDogfoodParams(ctx)
	dp.HistoricalEntries += uint32(1 + r.Intn(5))
	pus = append(pus, pu{"dogfood", func(au string) sdk.Msg { return &dogfoodtypes.MsgUpdateParams{Authority: au, Params: dp} }})
	mp := app.ExomintKeeper.GetParams(ctx)
	mp.EpochReward = mp.EpochReward.AddRaw(int64(1 + r.Intn(1000)))
	pus = append(pus, pu{"exomint", func(au string) sdk.Msg { return &exominttypes.MsgUpdateParams{Authority: au, Params: mp} }})
	fp := app.DistrKeeper.GetParams(ctx)
	pus = append(pus, pu{"feedistribution", func(au string) sdk.Msg { return &feedisttypes.MsgUpdateParams{Authority: au, Params: fp} }})
	op0 := app.OracleKeeper.GetParams(ctx)
	pus = append(pus, pu{"oracle", func(au string) sdk.Msg {
		return &oracletypes.MsgUpdateParams{Authority: au, Params: oracletypes.Params{MaxNonce: op0.MaxNonce + 1}}
	}})
	// x/reward and x/slash declare UpdateParams too, but their message servers are not registered with the router of
	// this application (no handler): there is no entry point to check
	_, _ = rewardtypes.DefaultParams, exoslashtypes.DefaultParams
	for _, u := range pus {
		entry := u.name + ".UpdateParams"
		pp := map[string]string{"entry": entry}
		a.wrong(entry, "signer-names-itself-authority", w.CosmosStep(entry, a.user, sim.CosmosTxOpts{}, pp, u.mk(a.user.Acc.String())))
		a.wrong(entry, "governance-named-but-signed-by-someone-else", w.CosmosStep(entry, a.user, sim.CosmosTxOpts{}, pp, u.mk(gov)))
		a.wrong(entry, "operator-names-itself-authority", w.CosmosStep(entry, w.Opers[0].Acct, sim.CosmosTxOpts{}, pp, u.mk(w.Opers[0].Addr())))
		a.right(entry, w.GovStep(entry, u.mk(gov)))
	}
	// the chain still runs
	for k := 0; k < 3 && !w.Dead; k++ {
		w.Advance(w.Dt)
	}
}

// boundTo: the only AVS record that may have changed is the one of the calling contract.
func (a *authzRun) boundTo(entry string, before map[string]avstypes.AVSInfo, avs *sim.Account) {
	after := sim.ParseAVS(a.w.Last.Raw)
	me := strings.ToLower(avs.Eth.String())
	a.s.Eval("avs-effect-bound-to-calling-contract")
	for addr, x := range after {
		if strings.ToLower(addr) == me {
			continue
		}
		if y, ok := before[addr]; !ok || y.String() != x.String() {
			a.s.Violate("avs-effect-on-another-avs", entry, a.hist, len(a.w.Steps), "%s called by %s changed the record of AVS %s", entry, me, addr)
		}
	}
	for addr := range before {
		if _, ok := after[addr]; !ok && strings.ToLower(addr) != me {
			a.s.Violate("avs-effect-on-another-avs", entry, a.hist, len(a.w.Steps), "%s called by %s removed AVS %s", entry, me, addr)
		}
	}
}

func (a *authzRun) prices(tag string) {
	w := a.w
	// the victim is the validator with the least power (its report alone does not finalise the round, so a second
	// creator's message in the same transaction is still accepted)
	var victim *sim.ConsKey
	var vpow int64
	for _, o := range w.Opers {
		for _, k := range o.Keys {
			if v, ok := w.Last.Dog.Validators[fmt.Sprintf("%X", k.ConsAddr().Bytes())]; ok && (victim == nil || v.Power < vpow) {
				victim, vpow = k, v.Power
			}
		}
	}
	if victim == nil {
		a.notEst["oracle.CreatePrice"] = "no known key in the validator set"
		return
	}
	outsider := sim.NewConsKey("authz-outsider-" + tag)
	// wait for an open round
	var fid, based uint64
	for k := 0; k < 14 && !w.Dead; k++ {
		open := oraclekeeper.VerifOpenRounds()
		var ids []uint64
		for id := range open {
			ids = append(ids, id)
		}
		sort.Slice(ids, func(x, y int) bool { return ids[x] < ids[y] })
		if len(ids) > 0 && uint64(w.C.Height()) > open[ids[0]] {
			fid, based = ids[0], open[ids[0]]
			break
		}
		w.Advance(w.Dt)
	}
	if fid == 0 {
		a.notEst["oracle.CreatePrice"] = "no open round reached"
		return
	}
	params := w.C.App.OracleKeeper.GetParams(w.C.Ctx())
	dec := params.Tokens[params.TokenFeeders[fid].TokenID].Decimal
	mk := func(creator string, nonce int32) *oracletypes.MsgCreatePrice {
		return &oracletypes.MsgCreatePrice{Creator: creator, FeederID: fid, BasedBlock: based, Nonce: nonce,
			Prices: []*oracletypes.PriceSource{{SourceID: 1, Prices: []*oracletypes.PriceTimeDetID{{Price: "12345", Decimal: dec,
				Timestamp: w.C.Header.Time.UTC().Format("2006-01-02 15:04:05"), DetID: fmt.Sprint(9000 + based)}}}}}
	}
	vc, oc := sim.OracleCreator(victim), sim.OracleCreator(outsider)
	type ident struct {
		name string
		key  *sim.ConsKey
		opts sim.OracleTxOpts
		msg  *oracletypes.MsgCreatePrice
	}
	ids := []ident{
		{"forged-signature-under-validators-pubkey", victim, sim.OracleTxOpts{GarbageSig: true}, mk(vc, 1)},
		{"outsiders-signature-under-validators-pubkey", victim, sim.OracleTxOpts{SignWith: outsider.Priv}, mk(vc, 1)},
		{"outsider-key-validator-as-creator", outsider, sim.OracleTxOpts{}, mk(vc, 1)},
		{"non-validator", outsider, sim.OracleTxOpts{}, mk(oc, 1)},
		{"unsigned", victim, sim.OracleTxOpts{NoSignature: true}, mk(vc, 1)},
		{"signed-for-another-chain-id", victim, sim.OracleTxOpts{ChainID: "exocore_233-7"}, mk(vc, 1)},
	}
	entry := "oracle.CreatePrice"
	for _, id := range ids {
		bz, err := w.C.OracleTx(id.key, id.opts, id.msg)
		if err != nil {
			continue
		}
		pp := map[string]string{"identity": id.name}
		a.wrong(entry, id.name+"|CheckTx", w.CheckTxStep(entry, bz, false, pp, nil))
		a.wrong(entry, id.name+"|ReCheckTx", w.CheckTxStep(entry, bz, true, pp, nil))
		a.wrong(entry, id.name+"|DeliverTx", w.RawTxStep(entry, bz, pp, nil))
	}
	// no signer info at all
	if bz, err := w.C.OracleTxMulti(nil, mk(vc, 1)); err == nil {
		pp := map[string]string{"identity": "no-signer-info"}
		a.wrong(entry, "no-signer-info|CheckTx", w.CheckTxStep(entry, bz, false, pp, nil))
		a.wrong(entry, "no-signer-info|DeliverTx", w.RawTxStep(entry, bz, pp, nil))
	}
	// two messages of two creators in one transaction: the first slot is genuine, the second names another
	// validator as creator but carries an outsider's key and signature
	var second *sim.ConsKey
	for _, o := range w.Opers {
		for _, k := range o.Keys {
			if _, ok := w.Last.Dog.Validators[fmt.Sprintf("%X", k.ConsAddr().Bytes())]; ok && k != victim && second == nil {
				second = k
			}
		}
	}
	if second != nil {
		sc := sim.OracleCreator(second)
		entry2 := "oracle.CreatePrice(two creators)"
		forged := [][]sim.OracleSlot{
			{{Pub: victim, Sign: victim}, {Pub: outsider, Sign: outsider}},
			{{Pub: victim, Sign: victim}, {Pub: second, Sign: outsider}},
			{{Pub: victim, Sign: victim}},
			{{Pub: outsider, Sign: outsider}, {Pub: second, Sign: second}},
		}
		names := []string{"second-slot-outsider-key-and-signature", "second-slot-validators-pubkey-outsiders-signature", "second-signer-missing", "first-slot-outsider-second-genuine"}
		for k, slots := range forged {
			bz, err := w.C.OracleTxMulti(slots, mk(vc, 1), mk(sc, 1))
			if err != nil {
				continue
			}
			pp := map[string]string{"identity": names[k]}
			a.wrong(entry2, names[k]+"|CheckTx", w.CheckTxStep(entry2, bz, false, pp, nil))
			a.wrong(entry2, names[k]+"|DeliverTx", w.RawTxStep(entry2, bz, pp, nil))
		}
		if bz, err := w.C.OracleTxMulti([]sim.OracleSlot{{Pub: victim, Sign: victim}, {Pub: second, Sign: second}}, mk(vc, 1), mk(sc, 1)); err == nil {
			if a.right(entry2, w.RawTxStep(entry2, bz, map[string]string{"identity": "both validators"}, nil)) {
				// the single-creator twin below would now be a nonce replay; it was established by this transaction too
				for _, id := range a.pending[entry] {
					a.s.Case(entry + "|" + id)
				}
				delete(a.pending, entry)
				return
			}
		}
	}
	bz, err := w.C.OracleTx(victim, sim.OracleTxOpts{}, mk(vc, 1))
	if err != nil {
		a.notEst[entry] = err.Error()
		return
	}
	a.right(entry, w.RawTxStep(entry, bz, map[string]string{"identity": "validator"}, nil))
}

var _ = time.Second

// taskResults: a task result takes effect only for the signer of the transaction (both phases).
func (a *authzRun) taskResults(avs *sim.Account, op *ops.Oper, tag string) {
	w := a.w
	sk := blsKey("authz-" + tag)
	msg := sha256.Sum256([]byte("registration-" + tag))
	if st := w.CallFrom("bls_register", op.Acct, "avs", sim.AddrAVS, "registerBLSPublicKey", map[string]string{}, op.Acct.Eth, "key-"+tag, sk.PublicKey().Marshal(), sk.Sign(msg[:]).Marshal(), msg[:]); !st.Ack {
		a.notEst["avs.SubmitTaskResult"] = "BLS key registration refused: " + trunc80(st.Err)
		return
	}
	taddr := avs.Eth.String()
	resp, _ := json.Marshal(avstypes.TaskResponse{TaskID: 1, NumberSum: big.NewInt(7)})
	digest := crypto.Keccak256Hash(resp)
	sig := sk.Sign(digest[:]).Marshal()
	attacker := a.user2
	mk := func(from string, stage string) *avstypes.SubmitTaskResultReq {
		info := &avstypes.TaskResultInfo{OperatorAddress: op.Acct.Acc.String(), TaskContractAddress: taddr, TaskId: 1, Stage: stage, BlsSignature: sig}
		if stage == avstypes.TwoPhaseCommitTwo {
			info.TaskResponse = resp
		}
		return &avstypes.SubmitTaskResultReq{FromAddress: from, Info: info}
	}
	phase := func(entry, stage string) bool {
		pp := map[string]string{"entry": entry}
		a.wrong(entry, "another-account-signs-and-names-the-operator-in-the-result", w.CosmosStep(entry, attacker, sim.CosmosTxOpts{}, pp, mk(attacker.Acc.String(), stage)))
		a.wrong(entry, "signed-by-another-key", w.CosmosStep(entry, op.Acct, sim.CosmosTxOpts{SignWith: attacker.Priv}, pp, mk(op.Acct.Acc.String(), stage)))
		a.wrong(entry, "unsigned", w.CosmosStep(entry, op.Acct, sim.CosmosTxOpts{NoSignature: true}, pp, mk(op.Acct.Acc.String(), stage)))
		return a.right(entry, w.CosmosStep(entry, op.Acct, sim.CosmosTxOpts{}, pp, mk(op.Acct.Acc.String(), stage)))
	}
	if !phase("avs.SubmitTaskResult(phase one)", avstypes.TwoPhaseCommitOne) {
		return
	}
	// the statistical period of the task (response period 2, statistical period 2) starts four epochs later
	ti, err := w.C.App.AVSManagerKeeper.GetTaskInfo(w.C.Ctx(), "1", taddr)
	if err != nil {
		return
	}
	for k := 0; k < 30 && !w.Dead; k++ {
		e, _ := w.C.App.EpochsKeeper.GetEpochInfo(w.C.Ctx(), "minute")
		if e.CurrentEpoch > int64(ti.StartingEpoch)+int64(ti.TaskResponsePeriod) {
			break
		}
		w.Advance(w.Dt)
	}
	phase("avs.SubmitTaskResult(phase two)", avstypes.TwoPhaseCommitTwo)
}
