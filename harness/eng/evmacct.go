package eng

import (
	"fmt"
	"math/big"
	"math/rand"
	"strings"
	"time"

	sdkmath "cosmossdk.io/math"
	sdk "github.com/cosmos/cosmos-sdk/types"
	authtypes "github.com/cosmos/cosmos-sdk/x/auth/types"
	"github.com/ethereum/go-ethereum/common"
	"github.com/ethereum/go-ethereum/crypto"
	evmtypes "github.com/evmos/evmos/v16/x/evm/types"

	"verif/evm"
	"verif/mon"
	"verif/ops"
	"verif/sim"
)

// evmacct engine (C19): generated Ethereum transactions of all three types; around every DeliverTx the monitor reads
// the auth sequence and bank balances of sender, recipient, forwarding contract and fee collector, the EVM store
// (contract code / storage) and the restaking stores, decodes the response and checks the accounting identity.
func init() {
	Register("evmacct", runEvmAcct)
	RegisterPlan(Plan{Prop: "C19", Engine: "evmacct", Quick: 64, Thorough: 1600, Level: "exploration", MinCases: 60,
		Rule: "per history 90-160 Ethereum transactions (legacy / access-list / dynamic-fee) from rich, poor and empty senders: gas limits 20 999 ... block limit + 1, prices and tips around the base fee and the minimum gas price, values 0 ... balance + 1, nonces current / +1 / -1; targets: EOAs, contract creation (valid, reverting, oversized init code), a value-forwarding contract that afterwards returns / reverts / burns all gas / writes storage, the same in front of the assets precompile (the contract is the configured gateway), the store-writer contract (ok / revert), precompiles directly; several per block and per sender, blocks with and without a gas limit; every twelfth transaction carries two Ethereum messages of two different senders (own value + 21 000 x own price each, or nothing moves). Oracle per transaction: executed => nonce +1, sender pays value (if successful) + gasUsed x effective price, fee collector receives gasUsed x effective price, ceil(multiplier x limit) <= gasUsed <= limit, all balance deltas sum to zero; failed execution => no value moved, EVM storage/code and all restaking stores byte-identical; rejected by the admission checks => every balance and nonce unchanged; executed => the admission conditions held on the pre-state. Distinct = <type, target class, outcome, admission class>."})
}

type evmTarget struct {
	name string
	to   *common.Address
	data []byte
	// expectPayTo: address that receives the value when the execution succeeds
	payTo *common.Address
}

func runEvmAcct(j Job) *Result {
	res := NewResult()
	st := mon.NewStats("C19")
	for i := j.From; i < j.To; i++ {
		hist := fmt.Sprintf("evmacct:%d:%d", j.Seed, i)
		r := rand.New(rand.NewSource(j.Seed*982451653 + int64(i)))
		cfg := sim.DefaultConfig(2, []int64{100, 200})
		cfg.BlockMaxGas = []int64{0, 0, 30_000_000, 4_000_000}[r.Intn(4)]
		c, err := sim.NewChain(cfg)
		if err != nil {
			res.Inconclusive = "chain construction failed: " + err.Error()
			continue
		}
		w := ops.NewWorld(c, r)
		w.Dt = 5 * time.Second
		w.KeepSnaps = false
		if !w.Start() {
			continue
		}
		e := &evmRun{w: w, r: r, s: st, hist: hist, blockMax: cfg.BlockMaxGas, res: res}
		e.setup()
		n := 90 + r.Intn(70)
		if j.Tier == "thorough" {
			n = 150 + r.Intn(150)
		}
		for k := 0; k < n && !w.Dead; k++ {
			if k%12 == 7 {
				e.pair()
			}
			e.one()
			if r.Intn(5) == 0 {
				w.Advance(w.Dt)
			}
		}
		res.Histories++
		res.Steps += int64(e.txs)
		res.Blocks += c.Height()
		if w.Dead {
			res.Counters["dead-histories"]++
			if len(c.Panics) > 0 {
				res.Notes = append(res.Notes, hist+" halted: "+trunc80(c.Panics[len(c.Panics)-1].Value))
			}
		}
		if len(st.Samples) < 2 {
			st.Sample(map[string]interface{}{"history": hist, "transactions": e.txs, "block_max_gas": cfg.BlockMaxGas, "min_gas_price": e.minGasPrice.String(), "base_fee_enabled": !e.noBaseFee})
		}
	}
	res.AddStats(st)
	return res
}

type evmRun struct {
	w        *ops.World
	r        *rand.Rand
	s        *mon.Stats
	hist     string
	blockMax int64
	txs      int
	res      *Result

	senders   []*sim.Account
	eoas      []common.Address
	payProxy  common.Address // forwards value, not the gateway
	gwProxy   common.Address // the configured gateway (forwarding contract)
	writer    common.Address
	collector sdk.AccAddress

	minGasPrice sdkmath.LegacyDec
	noBaseFee   bool
	multiplier  sdkmath.LegacyDec
	stakerAddr  []byte
}

func (e *evmRun) setup() {
	w, r := e.w, e.r
	c := w.C
	ctx := c.Ctx()
	e.collector = authtypes.NewModuleAddress(authtypes.FeeCollectorName)
	// fee market parameters of this history
	fp := c.App.FeeMarketKeeper.GetParams(ctx)
	switch r.Intn(4) {
	case 0:
		fp.MinGasPrice = sdkmath.LegacyNewDec(int64(1 + r.Intn(2_000_000_000)))
	case 1:
		fp.NoBaseFee = true
		fp.MinGasPrice = sdkmath.LegacyNewDec(int64(r.Intn(3)) * 1_000_000_000)
	}
	if r.Intn(3) == 0 {
		fp.MinGasMultiplier = sdkmath.LegacyNewDecWithPrec(int64(r.Intn(101)), 2)
	}
	_ = c.App.FeeMarketKeeper.SetParams(ctx, fp)
	e.minGasPrice, e.noBaseFee, e.multiplier = fp.MinGasPrice, fp.NoBaseFee, fp.MinGasMultiplier
	w.Last = c.Snapshot()

	gw := c.Gen.Cfg.Gateway
	// contracts
	var dst *ops.Step
	e.payProxy, dst = w.DeployContract(gw, evm.Deploy(evm.PayProxyRuntime()))
	if !dst.Ack {
		w.Dead = true
		return
	}
	e.writer, _ = w.DeployContract(gw, evm.Deploy(evm.StoreWriterRuntime()))
	if w.UseProxyGateway(evm.PayProxyRuntime(), evm.Deploy(evm.PayProxyRuntime())) {
		e.gwProxy = *w.Proxy
	}
	w.Proxy = nil // the engine builds its own calldata
	// senders: rich users, poor and empty accounts
	e.senders = append(e.senders, c.Gen.Cfg.Accounts[1:5]...)
	for k := 0; k < 4; k++ {
		a := sim.NewAccount(fmt.Sprintf("evm-poor-%s-%d", e.hist, k))
		amt := []sdkmath.Int{sdkmath.ZeroInt(), sdkmath.NewInt(1), sdkmath.NewInt(21_000 * 1_000_000_000), sdkmath.NewIntWithDecimal(3, 15)}[k]
		if amt.IsPositive() {
			_ = c.App.BankKeeper.SendCoins(c.Ctx(), gw.Acc, a.Acc, sdk.NewCoins(sdk.NewCoin("hua", amt)))
		}
		e.senders = append(e.senders, a)
	}
	for k := 0; k < 3; k++ {
		e.eoas = append(e.eoas, sim.NewAccount(fmt.Sprintf("evm-eoa-%d", k)).Eth)
	}
	e.eoas = append(e.eoas, c.Gen.Cfg.Accounts[5].Eth)
	e.stakerAddr = sim.NewAccount("evm-staker-" + e.hist).Eth.Bytes()
	w.AddStaker(w.Assets[0].Lz, e.stakerAddr)
	w.Last = c.Snapshot()
}

func (e *evmRun) bal(a sdk.AccAddress) *big.Int {
	return e.w.C.App.BankKeeper.GetBalance(e.w.C.Ctx(), a, "hua").Amount.BigInt()
}

func (e *evmRun) target(sender *sim.Account) evmTarget {
	r := e.r
	proxyCall := func(p common.Address, tgt common.Address, mode byte, payload []byte) []byte {
		out := append([]byte{}, tgt.Bytes()...)
		out = append(out, mode)
		return append(out, payload...)
	}
	w := e.w
	switch r.Intn(12) {
	case 0, 1:
		to := e.eoas[r.Intn(len(e.eoas))]
		return evmTarget{name: "eoa", to: &to, payTo: &to}
	case 2:
		to := sender.Eth
		return evmTarget{name: "self", to: &to, payTo: &to}
	case 3:
		switch r.Intn(3) {
		case 0:
			return evmTarget{name: "create-valid", data: evm.Deploy(evm.StoreWriterRuntime())}
		case 1:
			return evmTarget{name: "create-reverting", data: []byte{0x60, 0x00, 0x60, 0x00, 0xfd}} // PUSH1 0 PUSH1 0 REVERT
		default:
			return evmTarget{name: "create-oversized", data: append(evm.Deploy(evm.StoreWriterRuntime()), make([]byte, 50_000)...)}
		}
	case 4, 5:
		mode := byte(r.Intn(4))
		tgt := e.eoas[r.Intn(len(e.eoas))]
		to := e.payProxy
		pay := tgt
		return evmTarget{name: fmt.Sprintf("forwarder->eoa|mode=%d", mode), to: &to, data: proxyCall(to, tgt, mode, nil), payTo: &pay}
	case 6, 7:
		// the gateway contract in front of the assets precompile: a deposit that is then returned / reverted / burnt / followed by a write
		if (e.gwProxy == common.Address{}) {
			to := e.eoas[0]
			return evmTarget{name: "eoa", to: &to, payTo: &to}
		}
		mode := byte(r.Intn(4))
		a := w.Assets[0]
		payload, _ := sim.ABI("assets").Pack("depositLST", uint32(a.Lz), pad32b(a.Addr), pad32b(e.stakerAddr), big.NewInt(int64(1+r.Intn(1000))))
		to := e.gwProxy
		pc := sim.AddrAssets
		return evmTarget{name: fmt.Sprintf("gateway-contract->assets.depositLST|mode=%d", mode), to: &to, data: proxyCall(to, sim.AddrAssets, mode, payload), payTo: &pc}
	case 8:
		rev := int64(r.Intn(2))
		data := append(pad32b(nil), pad32b(nil)...)
		data[31] = byte(1 + r.Intn(200))
		if r.Intn(3) == 0 {
			data[31] = 0 // clears the slot: when it held a value the EVM credits a refund
		}
		data[63] = byte(rev)
		to := e.writer
		return evmTarget{name: fmt.Sprintf("store-writer|revert=%d", rev), to: &to, data: data, payTo: &to}
	case 9:
		// precompile directly (the sender is not the gateway: the precompile refuses)
		a := w.Assets[0]
		payload, _ := sim.ABI("assets").Pack("depositLST", uint32(a.Lz), pad32b(a.Addr), pad32b(e.stakerAddr), big.NewInt(5))
		to := sim.AddrAssets
		return evmTarget{name: "assets-precompile-direct", to: &to, data: payload, payTo: &to}
	case 10:
		to := sim.AddrBLS
		return evmTarget{name: "bls-precompile-garbage", to: &to, data: randBytes(r, 4+r.Intn(100)), payTo: &to}
	default:
		to := common.BytesToAddress(randBytes(r, 20))
		return evmTarget{name: "fresh-address", to: &to, data: randBytes(r, r.Intn(40)), payTo: &to}
	}
}

// pair: one cosmos transaction that carries two separately signed Ethereum messages of two different funded senders
// (plain transfers, gas limit 21 000 = gas used, different prices and values). Executed => each sender pays exactly its own
// value + 21 000 x its own price and its own nonce moves by one, the recipient gets both values, the fee collector both
// fees; rejected => nobody's balance or nonce moves.
func (e *evmRun) pair() {
	w, r, s := e.w, e.r, e.s
	c := w.C
	ctx := c.Ctx()
	i := r.Intn(4)
	j := (i + 1 + r.Intn(3)) % 4
	sa, sb := e.senders[i], e.senders[j]
	to := e.eoas[r.Intn(3)]
	bf := c.App.FeeMarketKeeper.GetBaseFee(ctx)
	if e.noBaseFee || bf == nil {
		bf = big.NewInt(0)
	}
	ref := new(big.Int).Set(bf)
	if mp := e.minGasPrice.Ceil().TruncateInt().BigInt(); mp.Cmp(ref) > 0 {
		ref = mp
	}
	if ref.Sign() == 0 {
		ref = big.NewInt(1_000_000_000)
	}
	var msgs []*evmtypes.MsgEthereumTx
	snd := []*sim.Account{sa, sb}
	price := []*big.Int{new(big.Int).Mul(ref, big.NewInt(int64(1+r.Intn(3)))), new(big.Int).Mul(ref, big.NewInt(int64(2+r.Intn(3))))}
	value := []*big.Int{big.NewInt(int64(r.Intn(1_000_000))), big.NewInt(int64(1 + r.Intn(1_000_000)))}
	nonce := []uint64{c.App.EvmKeeper.GetNonce(ctx, sa.Eth), c.App.EvmKeeper.GetNonce(ctx, sb.Eth)}
	if r.Intn(10) == 0 {
		nonce[1]++ // the second message is inadmissible: the whole transaction must cost nobody anything
	}
	for k := range snd {
		n := nonce[k]
		_, m, err := c.EthTx(ctx, sim.EthTxArgs{From: snd[k], To: &to, Value: value[k], GasLimit: 21_000, GasPrice: price[k], Nonce: &n, Type: 0})
		if err != nil {
			return
		}
		msgs = append(msgs, m)
	}
	bz, err := sim.WrapEthMsgs(c.TxCfg, msgs...)
	if err != nil {
		return
	}
	watch := map[string]sdk.AccAddress{"sender-1": sa.Acc, "sender-2": sb.Acc, "to": sdk.AccAddress(to.Bytes()), "collector": e.collector}
	pre := map[string]*big.Int{}
	for k, a := range watch {
		pre[k] = e.bal(a)
	}
	curNonce := []uint64{c.App.EvmKeeper.GetNonce(ctx, sa.Eth), c.App.EvmKeeper.GetNonce(ctx, sb.Eth)}
	st := w.RawTxStep("eth_tx_pair", bz, map[string]string{"sender-1": sa.Name, "sender-2": sb.Name, "prices": price[0].String() + "," + price[1].String(), "values": value[0].String() + "," + value[1].String(), "nonces": fmt.Sprint(nonce, curNonce)}, nil)
	e.txs++
	s.Eval("two-sender-transaction")
	if st.Panic != "" {
		s.Violate("panic-in-delivery", "two-senders", e.hist, st.I, "DeliverTx panicked: %s", trunc80(st.Panic))
		return
	}
	ctx = c.Ctx()
	delta := func(k string) *big.Int { return new(big.Int).Sub(e.bal(watch[k]), pre[k]) }
	nAfter := []uint64{c.App.EvmKeeper.GetNonce(ctx, sa.Eth), c.App.EvmKeeper.GetNonce(ctx, sb.Eth)}
	executed := st.TxRes.Code == 0
	s.Case(fmt.Sprintf("two-senders|executed=%v|second-nonce-ahead=%v", executed, nonce[1] != curNonce[1]))
	if !executed && (nAfter[0] != curNonce[0] || nAfter[1] != curNonce[1]) {
		// included but failed after the ante handler (e.g. the block gas meter ran out): as for single-message
		// transactions the statement knows only 'included' (each sender charged at most its own gas limit x price, its
		// nonce consumed, no value moved) and 'not included' (costs nothing)
		s.Eval("charged-without-execution")
		s.Case("two-senders|charged-without-execution")
		paidSum := new(big.Int)
		for k, name := range []string{"sender-1", "sender-2"} {
			paid := new(big.Int).Neg(delta(name))
			maxFee := new(big.Int).Mul(price[k], big.NewInt(21_000))
			paidSum.Add(paidSum, paid)
			if nAfter[k] != curNonce[k]+1 || paid.Sign() < 0 || paid.Cmp(maxFee) > 0 {
				s.Violate("failed-message-accounting", "two-senders|"+name, e.hist, st.I, "two-message transaction failed after the ante handler (%s): nonce of %s %d -> %d, it paid %s (its max fee %s); %v", trunc80(st.Err), name, curNonce[k], nAfter[k], paid, maxFee, st.P)
			}
		}
		if delta("collector").Cmp(paidSum) != 0 {
			s.Violate("failed-message-accounting", "two-senders|collector", e.hist, st.I, "two-message transaction failed after the ante handler: senders paid %s, fee collector received %s", paidSum, delta("collector"))
		}
		if delta("to").Sign() != 0 {
			s.Violate("failed-message-accounting", "two-senders|to", e.hist, st.I, "two-message transaction failed after the ante handler but the recipient's balance changed by %s", delta("to"))
		}
		return
	}
	if !executed {
		for k := range watch {
			if delta(k).Sign() != 0 {
				s.Violate("rejected-transaction-moved-money", "two-senders|"+k, e.hist, st.I, "two-message transaction rejected (%s) but the balance of %s changed by %s; %v", trunc80(st.Err), k, delta(k), st.P)
			}
		}
		if nAfter[0] != curNonce[0] || nAfter[1] != curNonce[1] {
			s.Violate("rejected-transaction-moved-nonce", "two-senders", e.hist, st.I, "two-message transaction rejected (%s) but the nonces went %v -> %v", trunc80(st.Err), curNonce, nAfter)
		}
		return
	}
	fees := new(big.Int)
	vals := new(big.Int)
	for k, name := range []string{"sender-1", "sender-2"} {
		fee := new(big.Int).Mul(price[k], big.NewInt(21_000))
		want := new(big.Int).Neg(new(big.Int).Add(fee, value[k]))
		fees.Add(fees, fee)
		vals.Add(vals, value[k])
		if delta(name).Cmp(want) != 0 {
			s.Violate("sender-delta-differs", "two-senders|"+name, e.hist, st.I, "two-message transaction executed: %s's balance changed by %s, its own value + 21000 x its own price = %s; %v", name, delta(name), want, st.P)
		}
		if nAfter[k] != curNonce[k]+1 {
			s.Violate("nonce-not-incremented-by-one", "two-senders|"+name, e.hist, st.I, "nonce of %s %d -> %d", name, curNonce[k], nAfter[k])
		}
	}
	if delta("to").Cmp(vals) != 0 {
		s.Violate("recipient-delta-differs", "two-senders", e.hist, st.I, "recipient received %s, values sent %s", delta("to"), vals)
	}
	if delta("collector").Cmp(fees) != 0 {
		s.Violate("collector-delta-differs", "two-senders", e.hist, st.I, "fee collector received %s, fees %s", delta("collector"), fees)
	}
}

func (e *evmRun) one() {
	w, r := e.w, e.r
	c := w.C
	ctx := c.Ctx()
	sender := e.senders[r.Intn(len(e.senders))]
	if r.Intn(2) == 0 {
		sender = e.senders[r.Intn(4)] // the funded users
	}
	tg := e.target(sender)
	bf := c.App.FeeMarketKeeper.GetBaseFee(ctx)
	if e.noBaseFee || bf == nil {
		bf = big.NewInt(0)
	}
	ref := new(big.Int).Set(bf)
	if ref.Sign() == 0 {
		ref = big.NewInt(1_000_000_000)
	}
	curNonce := c.App.EvmKeeper.GetNonce(ctx, sender.Eth)
	balS := e.bal(sender.Acc)
	args := sim.EthTxArgs{From: sender, To: tg.to, Data: tg.data}
	args.Type = r.Intn(3)
	// gas limit
	gls := []uint64{20_999, 21_000, 21_001, 30_000, 60_000, 60_000, 250_000, 250_000, 250_000, 1_500_000, 1_500_000, 3_999_999}
	if e.blockMax > 0 {
		gls = append(gls, uint64(e.blockMax), uint64(e.blockMax)+1)
	}
	args.GasLimit = gls[r.Intn(len(gls))]
	if tg.to == nil && r.Intn(3) > 0 {
		args.GasLimit = 1_500_000
	}
	// price
	price := func() *big.Int {
		switch r.Intn(14) {
		case 0:
			return new(big.Int).Sub(ref, big.NewInt(1))
		case 1:
			return big.NewInt(0)
		case 2:
			return new(big.Int).Add(ref, big.NewInt(1))
		case 3:
			return new(big.Int).Mul(ref, big.NewInt(int64(2+r.Intn(5))))
		case 4:
			return e.minGasPrice.TruncateInt().BigInt()
		case 5:
			return new(big.Int).Sub(e.minGasPrice.TruncateInt().BigInt(), big.NewInt(1))
		default:
			return new(big.Int).Set(ref)
		}
	}
	var feeCap, tip *big.Int
	if args.Type == 2 {
		feeCap = price()
		if feeCap.Sign() < 0 {
			feeCap = big.NewInt(0)
		}
		switch r.Intn(4) {
		case 0:
			tip = big.NewInt(0)
		case 1:
			tip = big.NewInt(1)
		case 2:
			tip = new(big.Int).Set(feeCap)
		default:
			tip = new(big.Int).Rsh(feeCap, 1)
		}
		args.GasFeeCap, args.GasTipCap = feeCap, tip
	} else {
		feeCap = price()
		if feeCap.Sign() < 0 {
			feeCap = big.NewInt(0)
		}
		tip = feeCap
		args.GasPrice = feeCap
	}
	// value
	switch r.Intn(11) {
	case 0:
		args.Value = big.NewInt(1)
	case 1:
		args.Value = new(big.Int).Rsh(balS, 1)
	case 2:
		args.Value = new(big.Int).Set(balS)
	case 3:
		args.Value = new(big.Int).Add(balS, big.NewInt(1))
	case 4:
		args.Value = big.NewInt(int64(1 + r.Intn(1_000_000)))
	default:
		args.Value = big.NewInt(0)
	}
	// "send max": a plain transfer that leaves the sender with exactly nothing (gas limit = gas used, value =
	// balance - gas limit x price, and for a dynamic-fee transaction a tip that makes the cap the effective price)
	if tg.name == "eoa" && *tg.to != sender.Eth && r.Intn(8) == 0 {
		args.GasLimit = 21_000
		fee := new(big.Int).Mul(feeCap, big.NewInt(21_000))
		if balS.Cmp(fee) > 0 {
			args.Value = new(big.Int).Sub(balS, fee)
			if args.Type == 2 {
				tip = new(big.Int).Set(feeCap)
				args.GasTipCap = tip
			}
			e.res.Counters["send-max-transfers-built"]++
		}
	}
	// nonce
	nonce := curNonce
	switch r.Intn(24) {
	case 0:
		nonce = curNonce + 1
	case 1:
		if curNonce > 0 {
			nonce = curNonce - 1
		}
	}
	args.Nonce = &nonce
	bz, _, err := c.EthTx(ctx, args)
	if err != nil {
		return
	}
	// effective price
	eff := new(big.Int).Set(feeCap)
	if args.Type == 2 {
		// without a fee market base fee the EVM keeper reports base fee 0: effective price = min(cap, tip)
		x := new(big.Int).Add(bf, tip)
		if x.Cmp(eff) < 0 {
			eff = x
		}
	}
	// observed addresses
	watch := map[string]sdk.AccAddress{"sender": sender.Acc, "collector": e.collector}
	if tg.to != nil {
		watch["to"] = sdk.AccAddress(tg.to.Bytes())
	} else {
		created := crypto.CreateAddress(sender.Eth, nonce)
		watch["to"] = sdk.AccAddress(created.Bytes())
	}
	if tg.payTo != nil {
		watch["payTo"] = sdk.AccAddress(tg.payTo.Bytes())
	}
	watch["proxy"] = sdk.AccAddress(e.payProxy.Bytes())
	watch["gateway-contract"] = sdk.AccAddress(e.gwProxy.Bytes())
	pre := map[string]*big.Int{}
	for k, a := range watch {
		pre[k] = e.bal(a)
	}
	supplyPre := c.App.BankKeeper.GetSupply(ctx, "hua").Amount.BigInt()
	evmPre := c.DumpStores(ctx, []string{"evm"})
	snapPre := w.Last

	checkAccepted, checked := false, false
	if r.Intn(3) == 0 {
		cst := w.CheckTxStep("eth_check", bz, false, map[string]string{"target": tg.name}, nil)
		checked, checkAccepted = true, cst.Ack
		if cst.Panic != "" {
			e.s.Violate("panic-in-checktx", tg.name, e.hist, cst.I, "CheckTx panicked: %s", trunc80(cst.Panic))
		}
		for k, a := range watch {
			if e.bal(a).Cmp(pre[k]) != 0 {
				e.s.Violate("checktx-changed-deliver-state", tg.name+"|"+k, e.hist, cst.I, "CheckTx changed the balance of %s in the deliver state", k)
			}
		}
	}
	st := w.RawTxStep("eth_tx", bz, map[string]string{"target": tg.name, "type": fmt.Sprint(args.Type), "gas": fmt.Sprint(args.GasLimit), "cap": feeCap.String(), "tip": tip.String(), "value": args.Value.String(), "nonce": fmt.Sprintf("%d(cur %d)", nonce, curNonce), "sender": sender.Name}, nil)
	e.txs++
	s := e.s
	s.Eval("ethereum-transaction")
	if st.Panic != "" {
		s.Violate("panic-in-delivery", tg.name, e.hist, st.I, "DeliverTx panicked: %s", trunc80(st.Panic))
		return
	}
	ctx = c.Ctx()
	post := map[string]*big.Int{}
	for k, a := range watch {
		post[k] = e.bal(a)
	}
	delta := func(k string) *big.Int { return new(big.Int).Sub(post[k], pre[k]) }
	nonceAfter := c.App.EvmKeeper.GetNonce(ctx, sender.Eth)
	evmPost := c.DumpStores(ctx, []string{"evm"})
	er := sim.DecodeEthResult(*st.TxRes)
	site := tg.name
	if i := strings.Index(site, "|"); i > 0 {
		site = site[:i]
	}

	// admission conditions on the pre-state
	// DeliverTx admission: the value must be covered by the balance and so must the fee at the effective price (the
	// stricter gasLimit x feeCap + value test of EthAccountVerificationDecorator runs in CheckTx only)
	cost := new(big.Int).Mul(new(big.Int).SetUint64(args.GasLimit), eff)
	fullCost := new(big.Int).Mul(new(big.Int).SetUint64(args.GasLimit), feeCap)
	fullCost.Add(fullCost, args.Value)
	adm := "admissible"
	switch {
	case nonce != curNonce:
		adm = "wrong-nonce"
	case !e.noBaseFee && feeCap.Cmp(bf) < 0:
		adm = "price-below-base-fee"
	case sdkmath.LegacyNewDecFromBigInt(eff).LT(e.minGasPrice):
		adm = "price-below-min-gas-price"
	case e.blockMax > 0 && args.GasLimit > uint64(e.blockMax):
		adm = "gas-above-block-limit"
	case args.Type == 2 && tip.Cmp(feeCap) > 0:
		adm = "tip-above-cap"
	case balS.Cmp(cost) < 0 || balS.Cmp(args.Value) < 0:
		adm = "insufficient-balance"
	case args.GasLimit < 21_000:
		adm = "gas-below-intrinsic"
	}

	// (CheckTx runs against the state of the last commit - another base fee, other balances - so what it admits is
	// not judged here; it must only leave the deliver state alone, which is asserted above)
	_, _ = checked, checkAccepted
	executed := st.TxRes.Code == 0
	outcome := "rejected"
	if executed {
		outcome = "executed-ok"
		if er.VmError != "" {
			outcome = "executed-failed"
		}
	} else if nonceAfter != curNonce || delta("sender").Sign() != 0 {
		outcome = "charged-without-execution"
	}
	s.Case(fmt.Sprintf("type=%d|%s|%s|%s", args.Type, tg.name, outcome, adm))

	switch outcome {
	case "rejected":
		s.Eval("rejected-costs-nothing")
		for k := range watch {
			if delta(k).Sign() != 0 {
				s.Violate("rejected-transaction-moved-money", site+"|"+k, e.hist, st.I, "transaction rejected (%s) but the balance of %s changed by %s; %v", trunc80(st.Err), k, delta(k), st.P)
			}
		}
		if nonceAfter != curNonce {
			s.Violate("rejected-transaction-moved-nonce", site, e.hist, st.I, "transaction rejected (%s) but the nonce went %d -> %d", trunc80(st.Err), curNonce, nonceAfter)
		}
		if d := sim.DiffRaw(evmPre, evmPost, 3); len(d) > 0 {
			s.Violate("rejected-transaction-changed-evm-state", site, e.hist, st.I, "rejected transaction changed the EVM store: %+v", d)
		}
		e.restakingUnchanged(snapPre, st, site, "rejected")
		return
	case "charged-without-execution":
		// the ante handler passed (fee deducted, nonce bumped) and the message then returned an error: the statement
		// knows only 'included' (with gas used <= limit) and 'not included' (costs nothing)
		s.Eval("charged-without-execution")
		maxFee := new(big.Int).Mul(new(big.Int).SetUint64(args.GasLimit), eff)
		paid := new(big.Int).Neg(delta("sender"))
		if delta("collector").Cmp(paid) != 0 && !sender.Acc.Equals(e.collector) {
			s.Violate("failed-message-accounting", site+"|collector", e.hist, st.I, "message failed after the ante handler: sender paid %s, fee collector received %s", paid, delta("collector"))
		}
		if nonceAfter != curNonce+1 || paid.Cmp(maxFee) > 0 || paid.Sign() < 0 {
			s.Violate("failed-message-accounting", site, e.hist, st.I, "message failed after the ante handler (%s): nonce %d -> %d, sender paid %s (max fee %s); %v", trunc80(st.Err), curNonce, nonceAfter, paid, maxFee, st.P)
		}
		if d := sim.DiffRaw(evmPre, evmPost, 3); len(nonNonceEvm(d)) > 0 {
			s.Violate("failed-execution-changed-evm-state", site, e.hist, st.I, "failed message changed the EVM store: %+v", d)
		}
		e.restakingUnchanged(snapPre, st, site, "failed-message")
		return
	}
	// executed
	s.Eval("executed-accounting")
	if adm != "admissible" {
		s.Violate("inadmissible-transaction-executed", site+"|"+adm, e.hist, st.I, "transaction executed (%s, vm error %q) although %s: balance %s, gas limit x cap + value = %s, sender delta %s; %v", outcome, er.VmError, adm, balS, cost, delta("sender"), st.P)
	}
	if nonceAfter != curNonce+1 {
		s.Violate("nonce-not-incremented-by-one", site, e.hist, st.I, "nonce %d -> %d", curNonce, nonceAfter)
	}
	gasUsed := new(big.Int).SetUint64(er.GasUsed)
	minUsed := e.multiplier.MulInt(sdkmath.NewIntFromUint64(args.GasLimit)).TruncateInt().BigInt() // integer gas: floor
	if gasUsed.Cmp(new(big.Int).SetUint64(args.GasLimit)) > 0 || gasUsed.Cmp(minUsed) < 0 {
		s.Violate("gas-used-out-of-range", site, e.hist, st.I, "gas used %s, limit %d, minimum %s", gasUsed, args.GasLimit, minUsed)
	}
	fee := new(big.Int).Mul(gasUsed, eff)
	// expected deltas per address (an address can play several roles)
	exp := map[string]*big.Int{}
	add := func(a sdk.AccAddress, v *big.Int) {
		k := a.String()
		if exp[k] == nil {
			exp[k] = new(big.Int)
		}
		exp[k].Add(exp[k], v)
	}
	add(sender.Acc, new(big.Int).Neg(fee))
	add(e.collector, fee)
	moved := new(big.Int)
	if outcome == "executed-ok" && args.Value.Sign() > 0 {
		add(sender.Acc, new(big.Int).Neg(args.Value))
		moved.Set(args.Value)
	}
	// sender and fee collector exactly; the value, if the execution succeeded, must have arrived at the recipient
	// side (the called address, or where the forwarding contract sent it on) - nothing appears or disappears
	seen := map[string]bool{}
	others := new(big.Int)
	for k, a := range watch {
		if seen[a.String()] {
			continue
		}
		seen[a.String()] = true
		if want, ok := exp[a.String()]; ok {
			if a.Equals(sender.Acc) && (sender.Acc.Equals(watch["to"]) || (tg.payTo != nil && sender.Acc.Equals(watch["payTo"]))) {
				want = new(big.Int).Add(want, moved) // the sender is also the recipient
			}
			if delta(k).Cmp(want) != 0 {
				s.Violate("balance-delta", site+"|"+k+"|"+outcome, e.hist, st.I, "%s: balance of %s changed by %s, expected %s (gas used %s x price %s, value %s, vm error %q); %v", outcome, k, delta(k), want, gasUsed, eff, args.Value, er.VmError, st.P)
			}
			continue
		}
		others.Add(others, delta(k))
	}
	recipientIsPayer := sender.Acc.Equals(watch["to"]) || (tg.payTo != nil && sender.Acc.Equals(watch["payTo"])) || e.collector.Equals(watch["to"])
	if !recipientIsPayer && others.Cmp(moved) != 0 {
		s.Violate("value-not-conserved", site+"|"+outcome, e.hist, st.I, "%s: the recipient side (called address, forwarding target, forwarding contract) changed by %s in total, value %s; vm error %q; %v", outcome, others, args.Value, er.VmError, st.P)
	}
	if sp := c.App.BankKeeper.GetSupply(ctx, "hua").Amount.BigInt(); sp.Cmp(supplyPre) != 0 {
		s.Violate("supply-changed", site, e.hist, st.I, "total supply changed by %s in an Ethereum transaction", new(big.Int).Sub(sp, supplyPre))
	}
	if outcome == "executed-failed" {
		s.Eval("failed-execution-leaves-no-state")
		if d := nonNonceEvm(sim.DiffRaw(evmPre, evmPost, 4)); len(d) > 0 {
			s.Violate("failed-execution-changed-evm-state", site, e.hist, st.I, "execution failed (%s) but the EVM store changed: %+v", er.VmError, d)
		}
		e.restakingUnchanged(snapPre, st, site, "failed-execution")
	}
}

// nonNonceEvm drops nothing today (account nonces live in x/auth, not in the EVM store); kept as the single place
// where an allowed difference would be declared.
func nonNonceEvm(d []sim.Diff) []sim.Diff { return d }

func (e *evmRun) restakingUnchanged(pre *sim.Snap, st *ops.Step, site, what string) {
	post := e.w.Last
	a, b := sim.Raw{}, sim.Raw{}
	for _, n := range sim.RestakingStores {
		a[n], b[n] = pre.Raw[n], post.Raw[n]
	}
	if d := sim.DiffRaw(a, b, 3); len(d) > 0 {
		e.s.Violate("failed-execution-changed-restaking-state", site+"|"+what, e.hist, st.I, "%s transaction changed restaking stores: %+v; %v", what, d, st.P)
	}
}
