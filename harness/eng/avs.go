package eng

import (
	"crypto/sha256"
	"encoding/json"
	"fmt"
	"math/big"
	"math/rand"
	"os"
	"sort"
	"strings"
	"time"

	sdkmath "cosmossdk.io/math"
	sdk "github.com/cosmos/cosmos-sdk/types"
	"github.com/ethereum/go-ethereum/common"
	"github.com/ethereum/go-ethereum/crypto"
	"github.com/prysmaticlabs/prysm/v4/crypto/bls/blst"
	blscommon "github.com/prysmaticlabs/prysm/v4/crypto/bls/common"

	avstypes "github.com/ExocoreNetwork/exocore/x/avs/types"
	operatortypes "github.com/ExocoreNetwork/exocore/x/operator/types"

	"verif/mon"
	"verif/ops"
	"verif/sim"
)

// avs engine (C20): a reference model of the AVS registry and of every task's windows is stepped with each
// operation; real BLS keys and signatures (deterministic secrets, the vendored blst) are used. After every
// acknowledged operation the model's precondition for that operation must hold; at the epoch end that closes a
// task's statistical period the stored signer / non-signer lists and power totals are compared with what the model
// derives from the accepted results.
func init() {
	Register("avs", runAVS)
	RegisterPlan(Plan{Prop: "C20", Engine: "avs", Quick: 64, Thorough: 1600, Level: "exploration", MinCases: 40,
		Rule: "per history: 1-2 AVSs (re-registration of an AVS address, reuse of a task address by a second AVS), 3-5 operators with / without a registered BLS key, opt-ins by registered / unregistered operators into registered / unregistered AVSs with and without a minimum self delegation, 2-5 tasks with response / statistical / challenge periods 0..3, and per epoch a random set of phase-one / phase-two submissions and challenges placed before, on and after every window boundary, including duplicates, a phase two without phase one, another signature, another task id in the response, a signature by another key, an operator without a key, a non-operator. Every acknowledged operation is judged against the reference model's precondition; every epoch end that closes a statistical period is judged for signer list = accepted submitters, non-signer list = operators opted in at creation minus signers, disjointness, one power entry per signer and total power = the AVS's value. Distinct = <operation, phase of the task (response / statistical / challenge / after), outcome>."})
}

type avsTask struct {
	addr       string // task contract address (checksummed hex)
	id         uint64
	start      int64 // starting epoch
	resp       int64
	stat       int64
	chal       int64
	optIn      []string
	phase1     map[string][]byte // operator -> signature
	payload    map[string][]byte // operator -> the payload its phase-one signature was made over
	malformed  map[string]string // operator -> in which way that payload is not a task response
	phase2     map[string]bool
	challenged map[string]bool
	judged     bool
	hash       []byte
}

type avsOp struct {
	o      *ops.Oper
	sk     blscommon.SecretKey
	hasKey bool
}

type avsRun struct {
	w          *ops.World
	r          *rand.Rand
	s          *mon.Stats
	hist       string
	avs        []*sim.Account // AVS contracts (EOAs)
	owner      *sim.Account
	reg        map[string]bool   // registered AVS addresses (lower case)
	taskAddrOf map[string]string // task address (lower) -> avs (lower)
	tasks      []*avsTask
	opers      []*avsOp
	nextID     map[string]uint64
	optedIn    map[string]map[string]bool // avs -> operator -> opted in (model)
	taskAcct   map[string]*sim.Account    // avs (lower) -> account of its current task contract
	released   []*sim.Account             // task contracts an AVS moved away from
	// signersLeave: operators that submitted a result tend to opt out before the statistics are taken
	signersLeave bool
}

func blsKey(name string) blscommon.SecretKey {
	h := sha256.Sum256([]byte("bls-" + name))
	h[0] &= 0x3f // below the group order
	k, err := blst.SecretKeyFromBytes(h[:])
	if err != nil {
		h[0], h[1] = 0, 1
		k, _ = blst.SecretKeyFromBytes(h[:])
	}
	return k
}

func runAVS(j Job) *Result {
	res := NewResult()
	st := mon.NewStats("C20")
	for i := j.From; i < j.To; i++ {
		hist := fmt.Sprintf("avs:%d:%d", j.Seed, i)
		r := rand.New(rand.NewSource(j.Seed*86028121 + int64(i)))
		n := 3 + r.Intn(3)
		stakes := make([]int64, n)
		for k := range stakes {
			stakes[k] = int64(20 + r.Intn(500))
		}
		cfg := sim.DefaultConfig(n, stakes)
		c, err := sim.NewChain(cfg)
		if err != nil {
			res.Inconclusive = "chain construction failed: " + err.Error()
			continue
		}
		w := ops.NewWorld(c, r)
		w.Dt = 20 * time.Second // three blocks per minute epoch
		w.KeepSnaps = false
		if !w.Start() {
			continue
		}
		a := &avsRun{w: w, r: r, s: st, hist: hist, reg: map[string]bool{}, taskAddrOf: map[string]string{}, nextID: map[string]uint64{}, optedIn: map[string]map[string]bool{}}
		a.run(j.Tier == "thorough")
		res.Histories++
		res.Steps += int64(len(w.Steps))
		res.Blocks += c.Height()
		if w.Dead {
			res.Counters["dead-histories"]++
			if len(c.Panics) > 0 {
				pp := c.Panics[len(c.Panics)-1]
				res.Notes = append(res.Notes, fmt.Sprintf("%s halted in %s: %s", hist, pp.Phase, trunc80(pp.Value)))
				// a panic out of block processing of the AVS module is also a violation of this property's last clause
				if strings.Contains(pp.Stack, "x/avs/keeper") {
					st.Violate("epoch-end-statistics-panicked", exoFrame(pp.Stack), hist, len(w.Steps), "%s panicked in the AVS module: %s", pp.Phase, trunc80(pp.Value))
				}
			}
		}
		if len(st.Samples) < 2 {
			st.Sample(map[string]interface{}{"history": hist, "operators": n, "avs": len(a.avs), "tasks": len(a.tasks), "steps": len(w.Steps)})
		}
	}
	res.AddStats(st)
	return res
}

func (a *avsRun) cur(id string) int64 {
	e, ok := a.w.C.App.EpochsKeeper.GetEpochInfo(a.w.C.Ctx(), id)
	if !ok {
		return -1
	}
	return e.CurrentEpoch
}

func low(s string) string { return strings.ToLower(s) }

func (a *avsRun) call(kind string, from *sim.Account, method string, args ...interface{}) *ops.Step {
	return a.w.CallFrom(kind, from, "avs", sim.AddrAVS, method, map[string]string{}, args...)
}

func (a *avsRun) registerArgs(sender, avs *sim.Account, name string, task common.Address, minSelf uint64, assets []string) []interface{} {
	return []interface{}{sender.Eth, name, uint64(1), task, common.HexToAddress("0x0000000000000000000000000000000000000902"), common.HexToAddress("0x0000000000000000000000000000000000000903"),
		[]string{a.owner.Acc.String()}, assets, uint64(3), minSelf, "minute", []uint64{1, 1, 5, 5}}
}

func (a *avsRun) run(long bool) {
	w, r := a.w, a.r
	cfg := w.C.Gen.Cfg
	a.owner = cfg.Accounts[4]
	lst := w.Assets[0]
	for _, o := range w.Opers {
		a.opers = append(a.opers, &avsOp{o: o, sk: blsKey(a.hist + o.Acct.Name)})
	}
	// an account that is not an operator
	outsider := sim.NewAccount("avs-outsider-" + a.hist)
	w.Fund(outsider)
	outsiderOp := &avsOp{o: &ops.Oper{Acct: outsider}, sk: blsKey("outsider")}

	// delegations by stakers that are not the operators' own: for these operators the total value lies above the
	// self-delegated value, and the AVS minimums below are drawn around the self-delegated values
	for k, o := range w.Opers {
		if r.Intn(2) == 0 {
			continue
		}
		addr := common.HexToAddress(fmt.Sprintf("0x%040x", 0xabc000+k)).Bytes()
		sk := &ops.Staker{Lz: lst.Lz, Addr: addr, ID: sim.StakerID(lst.Lz, addr)}
		w.Stakers = append(w.Stakers, sk)
		amt := sdkmath.NewInt(int64(50+r.Intn(800)) * 1_000_000)
		w.Deposit(sk, lst, amt)
		w.Delegate(sk, lst, o, amt)
	}
	// --- registry -------------------------------------------------------------------------------------------
	nAVS := 1 + (r.Intn(3)+1)/2 // two AVSs in two thirds of the histories
	for k := 0; k < nAVS; k++ {
		acct := sim.NewAccount(fmt.Sprintf("avs-%s-%d", a.hist, k))
		w.Fund(acct)
		a.avs = append(a.avs, acct)
		minSelf := uint64(0)
		switch r.Intn(8) {
		case 0:
			minSelf = uint64(1 + r.Intn(1_000_000_000))
		case 1, 2, 3:
			// at, just above or well above the self-delegated value of one of the operators
			self := cfg.Operators[r.Intn(len(cfg.Operators))].SelfStake
			minSelf = uint64(self + []int64{0, 1, 1, 30, 30, 200}[r.Intn(6)])
		}
		taskAcct := acct
		if r.Intn(2) == 0 {
			taskAcct = sim.NewAccount(fmt.Sprintf("task-%s-%d", a.hist, k)) // a task contract of its own
			w.Fund(taskAcct)
		}
		task := taskAcct.Eth
		if k == 1 && r.Intn(2) == 0 {
			if prev := a.taskAcct[low(a.avs[0].Eth.String())]; prev != nil {
				task = prev.Eth // a task address that already belongs to another AVS
			}
		}
		st := a.call("avs_register", acct, "registerAVS", a.registerArgs(a.owner, acct, fmt.Sprintf("avs%d", k), task, minSelf, []string{lst.ID})...)
		a.judgeRegister(st, acct, task)
		if st.Ack {
			if a.taskAcct == nil {
				a.taskAcct = map[string]*sim.Account{}
			}
			a.taskAcct[low(acct.Eth.String())] = taskAcct
		}
		if r.Intn(3) == 0 {
			// the same AVS address once more
			st := a.call("avs_register", acct, "registerAVS", a.registerArgs(a.owner, acct, fmt.Sprintf("avs%d-again", k), acct.Eth, 0, []string{lst.ID})...)
			a.judgeRegister(st, acct, acct.Eth)
		}
	}
	ghost := sim.NewAccount("avs-ghost-" + a.hist) // never registered
	// --- BLS keys ---------------------------------------------------------------------------------------------
	for k, op := range a.opers {
		if k > 0 && r.Intn(4) == 0 {
			continue // this operator never registers a key
		}
		msg := sha256.Sum256([]byte("registration-" + op.o.Acct.Name))
		sig := op.sk.Sign(msg[:]).Marshal()
		signer := op
		if r.Intn(6) == 0 {
			signer = a.opers[(k+1)%len(a.opers)] // signature by another key: must be refused
			sig = signer.sk.Sign(msg[:]).Marshal()
		}
		st := a.call("bls_register", op.o.Acct, "registerBLSPublicKey", op.o.Acct.Eth, "key-"+op.o.Acct.Name, op.sk.PublicKey().Marshal(), sig, msg[:])
		a.s.Eval("bls-registration")
		a.s.Case(fmt.Sprintf("bls_register|own-signature=%v|ack=%v", signer == op, st.Ack))
		if st.Ack && signer != op {
			a.s.Violate("bls-key-registered-with-foreign-signature", "", a.hist, st.I, "a BLS key was registered with a registration signature made by another key")
		}
		if st.Ack {
			op.hasKey = true
		} else if signer == op {
			// retry honestly is not needed: the refusal of an honest registration would itself be odd, record it
			a.s.Case("bls_register|honest-refused|" + trunc80(st.Err))
		}
	}
	// --- opt-ins ----------------------------------------------------------------------------------------------
	for _, op := range a.opers {
		for _, av := range a.avs {
			if r.Intn(5) == 0 {
				continue
			}
			a.optIn(op, av.Eth.String())
		}
	}
	a.optIn(outsiderOp, a.avs[0].Eth.String()) // not a registered operator
	a.optIn(a.opers[0], ghost.Eth.String())    // not a registered AVS
	// voting power exists after the next epoch end
	for k := 0; k < 4 && !w.Dead; k++ {
		w.Advance(w.Dt)
	}
	// --- tasks and submissions -------------------------------------------------------------------------------
	epochs := 10 + r.Intn(6)
	if long {
		epochs = 14 + r.Intn(10)
	}
	for e := 0; e < epochs && !w.Dead; e++ {
		if len(a.tasks) < 6 && r.Intn(3) > 0 {
			a.createTask()
			if len(a.avs) > 1 && r.Intn(4) > 0 && len(a.tasks) > 0 {
				// the other AVS creates a task with the same periods in the same block: both statistical periods end
				// with the same epoch
				a.createTwin(a.tasks[len(a.tasks)-1])
			}
		}
		if r.Intn(14) == 0 || (len(a.tasks) > 0 && len(a.released) == 0 && r.Intn(6) == 0) {
			a.switchTaskContract()
		}
		if r.Intn(7) == 0 || (a.signersLeave && r.Intn(2) == 0) {
			// membership changes while tasks are running
			op := a.opers[r.Intn(len(a.opers))]
			if a.signersLeave && len(a.tasks) > 0 {
				t := a.tasks[len(a.tasks)-1]
				for _, cand := range a.opers {
					if _, ok := t.phase1[cand.o.Addr()]; ok && a.optedIn[low(a.taskAVS(t))][cand.o.Addr()] {
						op = cand
					}
				}
			}
			av := a.avs[r.Intn(len(a.avs))].Eth.String()
			if a.optedIn[low(av)][op.o.Addr()] {
				if st := w.OptOut(op.o, av); st.Ack {
					a.optedIn[low(av)][op.o.Addr()] = false
				}
			} else {
				a.optIn(op, av)
			}
		}
		for b := 0; b < 3 && !w.Dead; b++ {
			for _, t := range a.tasks {
				if r.Intn(2) == 0 {
					a.submission(t, outsiderOp)
				}
				if r.Intn(5) == 0 {
					a.challenge(t)
				}
			}
			pre := map[*avsTask]bool{}
			for _, t := range a.tasks {
				pre[t] = a.cur("minute") <= t.start+t.resp+t.stat
			}
			w.Advance(w.Dt)
			for _, t := range a.tasks {
				if pre[t] && !t.judged && a.cur("minute") >= t.start+t.resp+t.stat+1 && !w.Dead {
					// the BeginBlock just executed ended epoch start+resp+stat: the statistics were written
					a.judgeStatistics(t)
				}
			}
		}
	}
}

func (a *avsRun) judgeRegister(st *ops.Step, avs *sim.Account, task common.Address) {
	s := a.s
	s.Eval("avs-registration")
	addr, taddr := low(avs.Eth.String()), low(task.String())
	dupAVS := a.reg[addr]
	owner, taken := a.taskAddrOf[taddr]
	dupTask := taken && owner != addr
	s.Case(fmt.Sprintf("avs_register|avs-known=%v|task-address-taken=%v|ack=%v", dupAVS, dupTask, st.Ack))
	if st.Ack {
		if dupAVS {
			s.Violate("avs-address-registered-twice", "", a.hist, st.I, "AVS %s was registered a second time", addr)
		}
		if dupTask {
			s.Violate("task-address-registered-to-two-avs", "", a.hist, st.I, "task address %s already belongs to AVS %s and was accepted for AVS %s", taddr, owner, addr)
		}
		a.reg[addr] = true
		a.taskAddrOf[taddr] = addr
		if a.optedIn[addr] == nil {
			a.optedIn[addr] = map[string]bool{}
		}
	}
}

func (a *avsRun) optIn(op *avsOp, avs string) {
	w, s := a.w, a.s
	isOp := w.C.App.OperatorKeeper.IsOperator(w.C.Ctx(), op.o.Acct.Acc)
	pre := w.Last
	st := w.CosmosStep("avs_optin", op.o.Acct, sim.CosmosTxOpts{}, map[string]string{"avs": avs, "operator": op.o.Acct.Name}, &operatortypes.OptIntoAVSReq{FromAddress: op.o.Acct.Acc.String(), AvsAddress: avs})
	s.Eval("opt-in")
	s.Case(fmt.Sprintf("avs_optin|avs-registered=%v|operator-registered=%v|ack=%v", a.reg[low(avs)], isOp, st.Ack))
	if st.Ack {
		if !a.reg[low(avs)] {
			s.Violate("opt-in-to-unregistered-avs", "", a.hist, st.I, "operator %s opted into %s which is not a registered AVS", op.o.Acct.Name, avs)
		}
		if !isOp {
			s.Violate("opt-in-by-unregistered-operator", "", a.hist, st.I, "account %s is not a registered operator but opted into %s", op.o.Acct.Name, avs)
		}
		if a.optedIn[low(avs)] == nil {
			a.optedIn[low(avs)] = map[string]bool{}
		}
		a.optedIn[low(avs)][op.o.Addr()] = true
		// minimum self delegation: the stored requirement must be met by the operator's self-delegated value, computed
		// here from the pool of the state before the opt-in (this engine's AVSs accept the first genesis asset only:
		// 6 decimals, price 1): self tokens = OperatorShare x TotalAmount / TotalShare, one base unit of rounding allowed
		if info, err := w.C.App.AVSManagerKeeper.GetAVSInfo(w.C.Ctx(), avs); err == nil && info.Info.MinSelfDelegation > 0 && pre != nil && len(info.Info.AssetIDs) == 1 && info.Info.AssetIDs[0] == w.Assets[0].ID {
			s.Eval("opt-in-minimum-self-delegation")
			self := new(big.Int)
			if pool, ok := pre.Ledger.Operator[op.o.Addr()+"/"+w.Assets[0].ID]; ok && pool.TotalShare.IsPositive() {
				self.Mul(pool.OperatorShare.BigInt(), pool.TotalAmount.BigInt())
				self.Quo(self, pool.TotalShare.BigInt())
			}
			need := new(big.Int).Mul(new(big.Int).SetUint64(info.Info.MinSelfDelegation), big.NewInt(1_000_000))
			s.Case(fmt.Sprintf("avs_optin|minimum>0|accepted|self-at-minimum=%v", self.Cmp(need) == 0))
			if new(big.Int).Add(self, big.NewInt(1)).Cmp(need) < 0 {
				s.Violate("opt-in-below-minimum-self-delegation", "", a.hist, st.I, "operator %s opted into %s with self-delegated amount %s (base units of a 6-decimal asset priced 1) below the minimum %d", op.o.Acct.Name, avs, self, info.Info.MinSelfDelegation)
			}
		}
	}
}

func (a *avsRun) createTask() { a.createTaskFor(nil, 0, 0, 0) }

// createTwin creates a task for another AVS than t's with t's periods.
func (a *avsRun) createTwin(t *avsTask) {
	for _, av := range a.avs {
		if tc := a.taskAcct[low(av.Eth.String())]; tc != nil && tc.Eth.String() != t.addr {
			a.createTaskFor(av, uint64(t.resp), uint64(t.stat), uint64(t.chal))
			return
		}
	}
}

func (a *avsRun) createTaskFor(fixed *sim.Account, fresp, fstat, fchal uint64) {
	w, r, s := a.w, a.r, a.s
	av := a.avs[r.Intn(len(a.avs))]
	if fixed != nil {
		av = fixed
	}
	if !a.reg[low(av.Eth.String())] {
		return
	}
	resp, stat, chal := uint64(r.Intn(4)), uint64(r.Intn(4)), uint64(r.Intn(4))
	if fixed != nil {
		resp, stat, chal = fresp, fstat, fchal
	}
	hash := sha256.Sum256([]byte(fmt.Sprintf("task-%s-%d", a.hist, len(a.tasks))))
	tc := a.taskAcct[low(av.Eth.String())]
	if tc == nil {
		return
	}
	st := a.call("task_create", tc, "createTask", a.owner.Eth, fmt.Sprintf("task%d", len(a.tasks)), hash[:], resp, chal, uint64(60), stat)
	s.Eval("task-creation")
	s.Case(fmt.Sprintf("task_create|periods=%d/%d/%d|ack=%v", resp, stat, chal, st.Ack))
	s.Case(fmt.Sprintf("task_create|own-task-contract=%v|contract-switched-before=%v|ack=%v", tc != av, len(a.released) > 0, st.Ack))
	if !st.Ack && len(a.released) > 0 && os.Getenv("VERIF_AVS_DEBUG") != "" {
		fmt.Println("AVS-DEBUG create after switch failed:", st.Err)
	}
	if !st.Ack {
		return
	}
	taddr := tc.Eth.String()
	want := a.nextID[low(taddr)] + 1
	ti, err := w.C.App.AVSManagerKeeper.GetTaskInfo(w.C.Ctx(), fmt.Sprint(want), taddr)
	if os.Getenv("VERIF_AVS_DEBUG") != "" {
		fmt.Printf("AVS-DEBUG created avs=%s tc=%s own=%v want=%d err=%v released=%d\n", av.Name, tc.Name, tc != av, want, err, len(a.released))
	}
	if err != nil || ti.TaskId != want {
		s.Violate("task-id-not-consecutive", "", a.hist, st.I, "task contract %s: expected the new task to have id %d (error %v)", taddr, want, err)
		// resynchronise on whatever was stored
		for id := want; id < want+4; id++ {
			if x, e := w.C.App.AVSManagerKeeper.GetTaskInfo(w.C.Ctx(), fmt.Sprint(id), taddr); e == nil {
				ti, err, want = x, nil, id
				break
			}
		}
		if err != nil {
			return
		}
	}
	a.nextID[low(taddr)] = want
	t := &avsTask{addr: taddr, id: want, start: int64(ti.StartingEpoch), resp: int64(resp), stat: int64(stat), chal: int64(chal),
		optIn: append([]string{}, ti.OptInOperators...), phase1: map[string][]byte{}, phase2: map[string]bool{}, challenged: map[string]bool{}, hash: hash[:]}
	if cur := a.cur("minute"); t.start != cur+1 {
		s.Violate("task-starting-epoch", "", a.hist, st.I, "task created in epoch %d has starting epoch %d", cur, t.start)
	}
	a.tasks = append(a.tasks, t)
}

func (t *avsTask) phaseAt(e int64) string {
	switch {
	case e <= t.start+t.resp:
		return "response"
	case e <= t.start+t.resp+t.stat:
		return "statistical"
	case e <= t.start+t.resp+t.stat+t.chal:
		return "challenge"
	}
	return "after"
}

func (a *avsRun) response(t *avsTask, id uint64) []byte {
	bz, _ := json.Marshal(avstypes.TaskResponse{TaskID: id, NumberSum: big.NewInt(int64(1000 + t.id))})
	return bz
}

func (a *avsRun) submission(t *avsTask, outsider *avsOp) {
	w, r, s := a.w, a.r, a.s
	op := a.opers[r.Intn(len(a.opers))]
	variant := "honest"
	if r.Intn(12) == 0 {
		op, variant = outsider, "non-operator"
	}
	e := a.cur("minute")
	phase := t.phaseAt(e)
	resp := a.response(t, t.id)
	_, has1 := t.phase1[op.o.Addr()]
	malformed := ""
	if t.payload == nil {
		t.payload, t.malformed = map[string][]byte{}, map[string]string{}
	}
	if p, ok := t.payload[op.o.Addr()]; ok && has1 {
		resp, malformed = p, t.malformed[op.o.Addr()]
	} else if !has1 && r.Intn(4) == 0 {
		// an operator that commits (phase one signs the digest of the payload) to something that is not a task
		// response; everything else about its two submissions is in order
		switch r.Intn(6) {
		case 0, 1:
			malformed = "two-documents"
			resp = append(resp, a.response(t, t.id+6)...)
		case 2, 3:
			malformed = "trailing-bytes"
			resp = append(resp, []byte(" xyz")...)
		case 4:
			malformed = "truncated"
			resp = resp[:len(resp)-3]
		default:
			malformed = "not-json"
			resp = []byte{0, 1, 2, 'b', 'i', 'n'}
		}
	}
	digest := crypto.Keccak256Hash(resp)
	sig := op.sk.Sign(digest[:]).Marshal()
	stage := avstypes.TwoPhaseCommitOne
	if has1 && r.Intn(4) > 0 || (!has1 && r.Intn(8) == 0) {
		stage = avstypes.TwoPhaseCommitTwo
	}
	info := &avstypes.TaskResultInfo{OperatorAddress: op.o.Acct.Acc.String(), TaskContractAddress: t.addr, TaskId: t.id, Stage: stage, BlsSignature: sig}
	sigValid, idMatches, sameSig := true, true, true
	if stage == avstypes.TwoPhaseCommitTwo {
		info.TaskResponse = resp
		if has1 {
			info.BlsSignature = t.phase1[op.o.Addr()]
		}
		switch r.Intn(9) {
		case 0:
			variant = "other-signature-than-phase-one"
			info.BlsSignature = op.sk.Sign([]byte("something else, 32 bytes long!!!")).Marshal()
			sameSig = false
		case 1:
			variant = "response-with-another-task-id"
			info.TaskResponse = a.response(t, t.id+1)
			idMatches = false
		}
	} else {
		switch r.Intn(10) {
		case 0:
			variant = "signature-by-another-key"
			other := a.opers[(r.Intn(len(a.opers)))]
			if other != op {
				info.BlsSignature = other.sk.Sign(digest[:]).Marshal()
				sigValid = false
			} else {
				variant = "honest"
			}
		case 1:
			variant = "phase-one-carrying-a-response"
			info.TaskResponse = resp
		case 2:
			if r.Intn(2) == 0 {
				variant = "phase-one-with-empty-signature"
				info.BlsSignature = []byte{}
				sigValid = false
			}
		}
	}
	st := w.CosmosStep("task_result", op.o.Acct, sim.CosmosTxOpts{}, map[string]string{"task": fmt.Sprintf("%s/%d", t.addr, t.id), "stage": stage, "variant": variant, "operator": op.o.Acct.Name},
		&avstypes.SubmitTaskResultReq{FromAddress: op.o.Acct.Acc.String(), Info: info})
	s.Eval("task-result")
	if malformed != "" {
		variant += "|payload=" + malformed
	}
	s.Case(fmt.Sprintf("task_result|stage=%s|%s|window=%s|key=%v|ack=%v", stage, variant, phase, op.hasKey, st.Ack))
	if !st.Ack {
		return
	}
	bad := func(rule, f string, x ...interface{}) {
		s.Violate(rule, "stage="+stage+"|"+variant, a.hist, st.I, "task %s/%d epoch %d (start %d, periods %d/%d/%d): %s", t.addr, t.id, e, t.start, t.resp, t.stat, t.chal, fmt.Sprintf(f, x...))
	}
	if variant == "non-operator" {
		bad("result-from-unregistered-operator", "accepted from an account that is not a registered operator")
	}
	if !op.hasKey {
		bad("result-without-registered-bls-key", "accepted from operator %s which has no registered BLS key", op.o.Acct.Name)
	}
	if stage == avstypes.TwoPhaseCommitOne {
		if phase != "response" {
			bad("phase-one-outside-response-period", "phase one accepted in the %s window", phase)
		}
		if has1 {
			bad("phase-one-accepted-twice", "second phase one of operator %s accepted", op.o.Acct.Name)
		}
		if variant == "phase-one-carrying-a-response" {
			bad("phase-one-with-response", "phase one accepted although it carries the response")
		}
		t.phase1[op.o.Addr()] = info.BlsSignature
		t.payload[op.o.Addr()], t.malformed[op.o.Addr()] = resp, malformed
		_ = sigValid // a phase-one signature cannot be verified yet (the response is unknown); it is checked in phase two
		return
	}
	if !has1 {
		bad("phase-two-without-phase-one", "phase two accepted without a phase one of operator %s", op.o.Acct.Name)
	}
	if phase != "statistical" {
		bad("phase-two-outside-statistical-period", "phase two accepted in the %s window", phase)
	}
	if !sameSig {
		bad("phase-two-with-another-signature", "phase two accepted with a signature that differs from phase one")
	}
	if !idMatches {
		bad("phase-two-with-another-task-id", "phase two accepted with a response for task id %d", t.id+1)
	}
	if malformed != "" && variant != "response-with-another-task-id" {
		bad("phase-two-with-malformed-response", "phase two accepted although its payload is not a task response (%s): %q", malformed, string(resp))
	}
	// the phase-one signature must verify over the response (a phase one signed by another key must not get through)
	if has1 {
		if sg, err := blst.SignatureFromBytes(t.phase1[op.o.Addr()]); err != nil || !sg.Verify(op.sk.PublicKey(), digest[:]) {
			bad("phase-two-with-unverifiable-signature", "phase two accepted although the BLS signature does not verify under the operator's key")
		}
	}
	t.phase2[op.o.Addr()] = true
}

func (a *avsRun) challenge(t *avsTask) {
	w, r, s := a.w, a.r, a.s
	var avs *sim.Account
	for _, x := range a.taskAcct {
		if x.Eth.String() == t.addr {
			avs = x
		}
	}
	for _, x := range a.released {
		if x.Eth.String() == t.addr {
			avs = x
		}
	}
	if avs == nil {
		return
	}
	op := a.opers[r.Intn(len(a.opers))]
	e := a.cur("minute")
	phase := t.phaseAt(e)
	tr := avstypes.TaskResponse{TaskID: t.id, NumberSum: big.NewInt(int64(1000 + t.id))}
	rh, _ := avstypes.GetTaskResponseDigestEncodeByAbi(tr)
	st := a.call("task_challenge", avs, "challenge", a.owner.Eth, t.hash, t.id, rh[:], op.o.Acct.Acc.String())
	s.Eval("challenge")
	s.Case(fmt.Sprintf("task_challenge|window=%s|has-result=%v|challenged-before=%v|ack=%v", phase, t.phase2[op.o.Addr()], t.challenged[op.o.Addr()], st.Ack))
	if !st.Ack {
		return
	}
	if phase != "challenge" {
		s.Violate("challenge-outside-challenge-period", phase, a.hist, st.I, "challenge for task %s/%d accepted in epoch %d (%s window; start %d periods %d/%d/%d)", t.addr, t.id, e, phase, t.start, t.resp, t.stat, t.chal)
	}
	if t.challenged[op.o.Addr()] {
		s.Violate("challenge-accepted-twice", "", a.hist, st.I, "second challenge against %s for task %s/%d accepted", op.o.Acct.Name, t.addr, t.id)
	}
	t.challenged[op.o.Addr()] = true
	_ = w
}

func (a *avsRun) judgeStatistics(t *avsTask) {
	w, s := a.w, a.s
	t.judged = true
	ti, err := w.C.App.AVSManagerKeeper.GetTaskInfo(w.C.Ctx(), fmt.Sprint(t.id), t.addr)
	if err != nil {
		return
	}
	s.Eval("statistics-at-period-end")
	var signers []string
	for o := range t.phase1 {
		signers = append(signers, o)
	}
	sort.Strings(signers)
	isSigner := map[string]bool{}
	for _, o := range signers {
		isSigner[o] = true
	}
	var non []string
	for _, o := range t.optIn {
		if !isSigner[o] {
			non = append(non, o)
		}
	}
	sort.Strings(non)
	got := append([]string{}, ti.SignedOperators...)
	sort.Strings(got)
	gotNon := append([]string{}, ti.NoSignedOperators...)
	sort.Strings(gotNon)
	cls := fmt.Sprintf("statistics|signers=%d|non-signers=%d|late-joiners-signed=%v", minInt(len(signers), 3), minInt(len(non), 3), len(signers)+len(non) > len(t.optIn))
	s.Case(cls)
	site := "with-results"
	if len(signers) == 0 {
		site = "no-results"
	}
	if _, ok := a.taskAddrOf[low(t.addr)]; !ok {
		site += "|task-contract-released" // the AVS moved to another task contract while this task was running
	}
	if strings.Join(got, ",") != strings.Join(signers, ",") {
		s.Violate("signer-list-differs-from-accepted-results", site, a.hist, len(w.Steps), "task %s/%d: stored signers %v, accepted results from %v", t.addr, t.id, short(got), short(signers))
	}
	if strings.Join(gotNon, ",") != strings.Join(non, ",") {
		lateSigner := false
		for _, o := range gotNon {
			if isSigner[o] {
				lateSigner = true
			}
		}
		if lateSigner {
			site += "|signer-listed-as-non-signer"
		}
		s.Violate("non-signer-list-differs", site, a.hist, len(w.Steps), "task %s/%d: stored non-signers %v, opted in at creation %v minus signers %v = %v", t.addr, t.id, short(gotNon), short(t.optIn), short(signers), short(non))
	}
	if len(signers) > 0 {
		n := 0
		if ti.OperatorActivePower != nil {
			n = len(ti.OperatorActivePower.OperatorPowerList)
		}
		if n != len(signers) {
			s.Violate("power-entries-differ-from-signers", site, a.hist, len(w.Steps), "task %s/%d: %d power entries for %d signers", t.addr, t.id, n, len(signers))
		}
		total, err := w.C.App.OperatorKeeper.GetAVSUSDValue(w.C.Ctx(), a.taskAVS(t))
		if err == nil && !ti.TaskTotalPower.IsNil() && !ti.TaskTotalPower.Equal(total) {
			s.Violate("task-total-power-differs", site, a.hist, len(w.Steps), "task %s/%d: stored total power %s, AVS value %s", t.addr, t.id, ti.TaskTotalPower, total)
		}
	}
}

func (a *avsRun) taskAVS(t *avsTask) string {
	for _, x := range a.avs {
		if low(x.Eth.String()) == a.taskAddrOf[low(t.addr)] {
			return x.Eth.String()
		}
	}
	return t.addr
}

func short(l []string) []string {
	out := make([]string, len(l))
	for i, x := range l {
		if len(x) > 12 {
			out[i] = x[:6] + ".." + x[len(x)-4:]
		} else {
			out[i] = x
		}
	}
	return out
}

var _ = sdk.AccAddress{}

// switchTaskContract: an AVS moves to another task contract (a new one, or one that another AVS released); task
// identifiers are per task contract, so the counters must follow the contract, not the AVS.
func (a *avsRun) switchTaskContract() {
	w, r, s := a.w, a.r, a.s
	av := a.avs[r.Intn(len(a.avs))]
	addr := low(av.Eth.String())
	if !a.reg[addr] || a.taskAcct[addr] == nil {
		return
	}
	old := a.taskAcct[addr]
	var next *sim.Account
	var inUse []*sim.Account // task contracts other registered AVSs are using right now (hostile: must be refused)
	for _, x := range a.avs {
		if xa := low(x.Eth.String()); xa != addr && a.reg[xa] && a.taskAcct[xa] != nil && a.taskAcct[xa] != old {
			inUse = append(inUse, a.taskAcct[xa])
		}
	}
	if len(inUse) > 0 && r.Intn(3) == 0 {
		next = inUse[r.Intn(len(inUse))]
	} else if len(a.released) > 0 && r.Intn(2) == 0 {
		next = a.released[r.Intn(len(a.released))]
	} else {
		next = sim.NewAccount(fmt.Sprintf("task-%s-switch-%d", a.hist, len(a.released)+len(a.tasks)))
		w.Fund(next)
	}
	if next == old {
		return
	}
	owner, taken := a.taskAddrOf[low(next.Eth.String())]
	st := a.call("avs_update", av, "updateAVS", a.registerArgs(a.owner, av, "", next.Eth, 0, []string{w.Assets[0].ID})...)
	s.Eval("avs-update-task-contract")
	s.Case(fmt.Sprintf("avs_update|task-address-taken=%v|ack=%v", taken && owner != addr, st.Ack))
	if !st.Ack {
		return
	}
	if taken && owner != addr {
		s.Violate("task-address-registered-to-two-avs", "update", a.hist, st.I, "task address %s belongs to AVS %s and was accepted for AVS %s by an update", next.Eth, owner, addr)
	}
	delete(a.taskAddrOf, low(old.Eth.String()))
	a.taskAddrOf[low(next.Eth.String())] = addr
	a.taskAcct[addr] = next
	a.released = append(a.released, old)
}
