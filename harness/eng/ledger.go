package eng

import (
	"fmt"
	"math/rand"
	"strings"

	"verif/mon"
	"verif/ops"
)

// ledger engine: histories of the `ledger` profile with the monitors of C01 C02 C03 (and, as they are
// added, C04 C07 C16) attached to every history.
func init() {
	Register("ledger", runLedger)
	rule := "histories of the `ledger` workload profile (seeded PRNG; see DESIGN §5): deposits, withdrawals, delegations, undelegations (single, multi-operator, round trips), associate/dissociate, operator register/opt-in/opt-out/key changes, keeper-step slashes, NST balance updates, downtime and double-sign evidence, block/epoch advancement, hostile amounts. "
	RegisterPlan(Plan{Prop: "C01", Engine: "ledger", Quick: 240, Thorough: 6000, Level: "exploration", MinCases: 12,
		Rule: rule + "Non-trivial: a step that changed S(a) for some asset; distinct = ⟨op kind, asset kind, ack, sign(ΔS)⟩ plus escrow coverage."})
	RegisterPlan(Plan{Prop: "C02", Engine: "ledger", Quick: 240, Thorough: 6000, Level: "exploration", MinCases: 10,
		Rule: rule + "Distinct = ⟨invariant family, pool-state class (1:1 / skewed buckets / empty), #holders bucket, association⟩, bystander-fairness cases by ⟨op, pool class⟩, observed round trips by pool class, and pure-function triples by pool class (20 000 per run)."})
	RegisterPlan(Plan{Prop: "C03", Engine: "ledger", Variant: "exit", Quick: 240, Thorough: 6000, Level: "exploration", MinCases: 10,
		Rule: rule + "Distinct = ⟨operator lifecycle state at undelegation, hold pattern, asset kind, record origin⟩ for which a release was observed, accepted-undelegation classes by operator state, same-block release multiplicities, numbers of concurrent records."})
	RegisterPlan(Plan{Prop: "C04", Engine: "ledger", Variant: "slash", Quick: 240, Thorough: 6000, Level: "exploration", MinCases: 8,
		Rule: rule + "Slash drivers: keeper-step OperatorKeeper.Slash with generated power/proportion/infraction height/slash id (fresh, replayed, invalid), and the real BeginBlock path (double-sign evidence, downtime). Distinct = ⟨driver, p class (0,(0,1),1), #pools, #at-risk records, #not-at-risk records, pool slashed to zero⟩ for executed slashes, plus rejected-input and replay classes."})
	RegisterPlan(Plan{Prop: "C07", Engine: "ledger", Variant: "keys", Quick: 240, Thorough: 6000, Level: "exploration", MinCases: 8,
		Rule: rule + "Profile `keys` weights opt-in with key, key replacement (fresh key, own earlier key, another operator's key), opt-out and evidence higher. Distinct = ⟨op kind, key status (fresh / own-current / own-previous / others), removing?, ack⟩, registry shapes ⟨#operators with keys, previous keys present, removals present⟩, and observed prunings by cause (replaced / removal)."})
	RegisterPlan(Plan{Prop: "C05", Engine: "ledger", Variant: "power", Quick: 240, Thorough: 6000, Level: "exploration", MinCases: 8,
		Rule: rule + "Profile `power` additionally registers 1-2 AVSs through the AVS precompile (random asset subsets, minimum self-delegation 0/1/50/1000, epoch identifier minute or hour), lets operators opt in/out of them, and moves prices and price decimals by appending oracle rounds. Judged right after every BeginBlock that closed an epoch of the AVS's identifier. Distinct = ⟨epoch identifier, #assets of the AVS held by the operator, price classes, eligible?, zero value?⟩."})
	RegisterPlan(Plan{Prop: "C06", Engine: "ledger", Variant: "keys", Quick: 240, Thorough: 6000, Level: "exploration", MinCases: 8,
		Rule: rule + "Every EndBlock is judged: non-epoch blocks must return no updates; epoch-closing blocks are compared with a reference top-set computed from the pre-EndBlock snapshot. The consensus side applies every update list with CometBFT's own ValidatorSet.UpdateWithChangeSet. Distinct = ⟨|prev|, |new|, #added, #removed, #repowered, tie?, capped by MaxValidators?, sub-unit powers present?⟩."})
	RegisterPlan(Plan{Prop: "C16", Engine: "ledger", Variant: "queues", Quick: 240, Thorough: 6000, Level: "exploration", MinCases: 8,
		Rule: rule + "Profile `queues` weights undelegations, opt-outs and key replacements higher and lets governance change EpochsUntilUnbonded (1..4) mid-run; block-time gaps of 61 s / 130 s give one-tick-per-block catch-up. A shadow model records the epoch each queue entry was registered for; every BeginBlock/EndBlock is judged for timing, completeness and exactly-once. Distinct = ⟨registration kind, cause (validator / opting-out), N⟩, drain shapes ⟨#opt-outs, #prunings, #undelegations⟩ and hold-decision classes."})
}

func runLedger(j Job) *Result {
	res := NewResult()
	c01 := mon.NewStats("C01")
	c02 := mon.NewStats("C02")
	c03 := mon.NewStats("C03")
	c04 := mon.NewStats("C04")
	c07 := mon.NewStats("C07")
	c05 := mon.NewStats("C05")
	c06 := mon.NewStats("C06")
	c16 := mon.NewStats("C16")
	c09 := mon.NewStats("C09")
	for i := j.From; i < j.To; i++ {
		hist := fmt.Sprintf("ledger:%s:%d:%d", j.Variant, j.Seed, i)
		o := ops.DefaultLedgerOpts()
		r := rand.New(rand.NewSource(j.Seed*7919 + int64(i)))
		o.NOps = 2 + r.Intn(4)
		o.ExtraOps = 1 + r.Intn(3)
		o.NStakers = 3 + r.Intn(6)
		o.Steps = 100 + r.Intn(80)
		o.Unbond = uint32(1 + r.Intn(3))
		if r.Intn(3) == 0 {
			o.MaxVals = uint32(1 + r.Intn(3))
		}
		if r.Intn(4) == 0 {
			o.MinSelf = int64(1 + r.Intn(200))
		}
		if j.Tier == "thorough" {
			o.Steps = 150 + r.Intn(150)
		}
		o.Profile = j.Variant
		if j.Variant == "" && i%2 == 1 {
			// C01 / C02 have no profile of their own: half of their histories rotate through the others
			all := []string{"slash", "exit", "keys", "power", "queues"}
			o.Profile = all[(i/2)%len(all)]
		} else if j.Variant != "invalid" && i%3 == 2 {
			// every third history runs one of the other profiles: each property's monitor also sees the states that
			// the slash / exit / keys / power / queues workloads reach
			all := []string{"", "exit", "slash", "keys", "power", "queues"}
			o.Profile = all[(i/3)%len(all)]
		}
		w, err := ops.BuildLedgerWorld(j.Seed, i, o)
		if err != nil {
			res.Notes = append(res.Notes, "build: "+err.Error())
			res.Inconclusive = "world construction failed: " + err.Error()
			continue
		}
		m1, m2, m3, m4 := mon.NewC01(hist), mon.NewC02(hist), mon.NewC03(hist), mon.NewC04(hist)
		m7, m5, m6, m16 := mon.NewC07(hist), mon.NewC05(hist), mon.NewC06(hist), mon.NewC16(hist)
		m9 := mon.NewC09(hist)
		m3.OperState = ops.OperState
		w.Monitors = []ops.Monitor{m1, m2, m3, m4, m7, m5, m6, m16, m9}
		w.RunLedger(o)
		res.Histories++
		res.Steps += int64(len(w.Steps))
		res.Blocks += w.C.Height()
		for _, st := range w.Steps {
			k := st.Kind
			if st.Ack {
				k += ":ack"
			} else if st.Fail {
				k += ":fail"
			}
			res.Counters["step:"+k]++
		}
		if w.Dead {
			res.Counters["dead-histories"]++
			if len(w.C.Panics) > 0 {
				p := w.C.Panics[len(w.C.Panics)-1]
				res.Notes = append(res.Notes, fmt.Sprintf("%s halted in %s: %s", hist, p.Phase, p.Value))
				res.Counters["dead:"+p.Phase+":"+trunc80(p.Value)]++
			} else if w.C.ValSetErr != nil {
				res.Counters["dead:validator-set-would-be-empty"]++
			} else {
				res.Counters["dead:other"]++
			}
		}
		for _, mp := range w.MonitorPanics {
			res.Notes = append(res.Notes, hist+" monitor panic: "+mp)
			res.Inconclusive = "a monitor panicked: " + mp
		}
		if w.C.ValSetErr != nil {
			res.Notes = append(res.Notes, fmt.Sprintf("%s valset: %v", hist, w.C.ValSetErr))
		}
		if j.Verbose {
			for _, st := range w.Steps {
				fmt.Printf("  %3d h=%d %-16s ack=%v fail=%v %v %s %s\n", st.I, st.Height, st.Kind, st.Ack, st.Fail, st.P, st.Err, st.Panic)
			}
		}
		if len(c01.Samples) < 2 && len(w.Steps) > 12 {
			c01.Sample(map[string]interface{}{"history": hist, "first_steps": w.Steps[:12]})
			c02.Sample(map[string]interface{}{"history": hist, "first_steps": w.Steps[4:14]})
			c03.Sample(map[string]interface{}{"history": hist, "first_steps": w.Steps[:12]})
			c05.Sample(map[string]interface{}{"history": hist, "first_steps": w.Steps[:10]})
			c06.Sample(map[string]interface{}{"history": hist, "first_steps": w.Steps[:10]})
			c16.Sample(map[string]interface{}{"history": hist, "first_steps": w.Steps[:10]})
			for _, st := range w.Steps {
				if st.Fail && len(c09.Samples) < 6 {
					c09.Sample(map[string]interface{}{"history": hist, "failed_step": st})
				}
			}
			for _, st := range w.Steps {
				if (st.Kind == "setkey" || st.Kind == "optout" || st.Kind == "optin") && len(c07.Samples) < 5 {
					c07.Sample(map[string]interface{}{"history": hist, "step": st})
				}
			}
			for _, st := range w.Steps {
				if st.Kind == "slash" && len(c04.Samples) < 4 {
					c04.Sample(map[string]interface{}{"history": hist, "step": st})
				}
			}
		}
		c01.Merge(m1.S)
		c02.Merge(m2.S)
		c03.Merge(m3.S)
		c04.Merge(m4.S)
		c07.Merge(m7.S)
		c05.Merge(m5.S)
		c06.Merge(m6.S)
		c16.Merge(m16.S)
		c09.Merge(m9.S)
		if w.ConsensusHalt != "" && strings.Contains(w.ConsensusHalt, "would result in empty set") {
			// no operator is eligible any more: the list that removes everybody is exactly what C06's statement asks for;
			// that consensus cannot run with an empty set is judged by C11 (recorded finding)
			c06.Eval("empty-eligible-set-not-judged-here")
		} else if w.ConsensusHalt != "" {
			c06.Violate("cometbft-rejects-update-list", haltClass(w.ConsensusHalt), hist, len(w.Steps), "CometBFT validator-set validation refused the update list: %s", w.ConsensusHalt)
		}
	}
	if j.From == 0 {
		mon.PureShareFunctions(c02, rand.New(rand.NewSource(j.Seed)), 20000)
	}
	res.AddStats(c01)
	res.AddStats(c02)
	res.AddStats(c03)
	res.AddStats(c04)
	res.AddStats(c07)
	res.AddStats(c05)
	res.AddStats(c06)
	res.AddStats(c16)
	res.AddStats(c09)
	return res
}
