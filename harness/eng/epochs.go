package eng

import (
	"fmt"
	"math/rand"
	"sort"
	"time"

	epochstypes "github.com/ExocoreNetwork/exocore/x/epochs/types"

	"verif/mon"
	"verif/sim"
)

// epochs engine (C15): full app, generated epoch identifiers and block-time sequences, a reference clock
// stepped alongside, the H3 notification trace compared block by block.
func init() {
	Register("epochs", runEpochs)
	RegisterPlan(Plan{Prop: "C15", Engine: "epochs", Quick: 160, Thorough: 6000, Level: "exploration", MinCases: 8,
		Rule: "block-time sequences (seeded PRNG) over 3-7 epoch identifiers: the stock minute/hour/day/week plus generated ones with durations from 1 ns to 1e9 s, start times in the past / at genesis / in the future, some already counting at genesis (a third of those with a start time that does not match the counter: relative clock rule only) with CurrentEpoch k>1. Block time steps mix: equal times, sub-duration steps, exactly on start+n*duration, one nanosecond either side, multi-duration gaps. After every block the stored EpochInfos must equal a 10-line reference clock and the H3 trace must be exactly, per ticking identifier in store order, AfterEpochEnd(id,n) to ⟨feedistribution, operator, dogfood, exomint, avs⟩ then BeforeEpochStart(id,n+1) to the same five. Distinct = ⟨relation of block time to the boundary (before / on / 1ns-after / after / multi-gap), first tick?, #identifiers ticking in the block⟩."})
}

var subscriberOrder = []string{
	"github.com/ExocoreNetwork/exocore/x/feedistribution/keeper",
	"github.com/ExocoreNetwork/exocore/x/operator/keeper",
	"github.com/ExocoreNetwork/exocore/x/dogfood/keeper",
	"github.com/ExocoreNetwork/exocore/x/exomint/keeper",
	"github.com/ExocoreNetwork/exocore/x/avs/keeper",
}

type refEpoch struct {
	id       string
	start    time.Time
	dur      time.Duration
	started  bool
	n        int64
	curStart time.Time
	curH     int64
}

func runEpochs(j Job) *Result {
	res := NewResult()
	st := mon.NewStats("C15")
	for i := j.From; i < j.To; i++ {
		hist := fmt.Sprintf("epochs:%d:%d", j.Seed, i)
		r := rand.New(rand.NewSource(j.Seed*104729 + int64(i)))
		cfg := sim.DefaultConfig(2, []int64{100, 200})
		gt := cfg.GenesisTime
		eps := epochstypes.DefaultGenesis().Epochs
		// stock identifiers keep zero start time (=> genesis time) except sometimes the week one starts later
		nExtra := r.Intn(4)
		loose := map[string]bool{}
		for k := 0; k < nExtra; k++ {
			var d time.Duration
			switch r.Intn(6) {
			case 0:
				d = time.Nanosecond
			case 1:
				d = time.Duration(1+r.Intn(1000)) * time.Millisecond
			case 2:
				d = time.Duration(1+r.Intn(90)) * time.Second
			case 3:
				d = time.Duration(1+r.Intn(1_000_000_000)) * time.Second
			case 4:
				d = 7 * time.Second
			default:
				d = time.Duration(1 + r.Int63n(int64(100*time.Second)))
			}
			e := epochstypes.EpochInfo{Identifier: fmt.Sprintf("x%c%d", 'a'+rune(r.Intn(26)), k), Duration: d}
			switch r.Intn(4) {
			case 0: // start in the past
				e.StartTime = gt.Add(-time.Duration(r.Int63n(int64(200 * time.Second))))
			case 1: // at genesis (zero => genesis time)
			case 2: // in the future
				e.StartTime = gt.Add(time.Duration(1 + r.Int63n(int64(300*time.Second))))
			default: // already counting, mid-count
				k0 := int64(2 + r.Intn(50))
				e.StartTime = gt.Add(-time.Duration(k0-1) * d).Add(-time.Duration(r.Int63n(int64(d))))
				if e.StartTime.Before(time.Unix(0, 0)) {
					e.StartTime = gt
					k0 = 1
				}
				e.EpochCountingStarted = true
				e.CurrentEpoch = k0
				e.CurrentEpochStartTime = e.StartTime.Add(time.Duration(k0-1) * d)
				e.CurrentEpochStartHeight = 0
				if r.Intn(3) == 0 {
					// a document whose start time does not match its counter (left unset => genesis time, or any other
					// time): the absolute formula start + (n-1) x duration has no meaning for it and is not judged, but
					// the clock must still advance from the current epoch's start by exactly one duration per tick
					loose[e.Identifier] = true
					e.CurrentEpochStartTime = gt.Add(-time.Duration(r.Int63n(int64(d))))
					if r.Intn(2) == 0 {
						e.StartTime = time.Time{}
					} else {
						e.StartTime = gt.Add(-time.Duration(r.Int63n(int64(500 * time.Second))))
					}
				}
			}
			if !e.EpochCountingStarted && r.Intn(4) == 0 {
				// not counting yet, but the document carries a left-over counter (the genesis validation accepts it):
				// the first tick still has to make the epoch number 1
				e.CurrentEpoch = int64(1 + r.Intn(9))
			}
			eps = append(eps, e)
		}
		cfg.Epochs = eps
		c, err := sim.NewChain(cfg)
		if err != nil {
			res.Inconclusive = "chain construction failed: " + err.Error()
			continue
		}
		// reference clock
		refs := map[string]*refEpoch{}
		var ids []string
		for _, e := range eps {
			re := &refEpoch{id: e.Identifier, start: e.StartTime, dur: e.Duration, started: e.EpochCountingStarted, n: e.CurrentEpoch, curStart: e.CurrentEpochStartTime, curH: e.CurrentEpochStartHeight}
			if re.start.IsZero() {
				re.start = gt // InitGenesis: zero start time means "now"
			}
			refs[e.Identifier] = re
			ids = append(ids, e.Identifier)
		}
		sort.Strings(ids)
		var trace []epochstypes.VerifHookCall
		epochstypes.VerifHookRecorder = func(c epochstypes.VerifHookCall) { trace = append(trace, c) }

		nBlocks := 60 + r.Intn(60)
		var sample []map[string]interface{}
		now := gt
		for b := 0; b < nBlocks; b++ {
			// choose the next block time
			var dt time.Duration
			target := refs[ids[r.Intn(len(ids))]]
			boundary := target.curStart.Add(target.dur)
			if !target.started {
				boundary = target.start
			}
			rel := "free"
			switch r.Intn(10) {
			case 0:
				dt = 0
				rel = "equal-time"
			case 1:
				dt = time.Duration(1 + r.Intn(1000))
				rel = "tiny-step"
			case 2, 3: // exactly on a boundary of the target identifier
				if boundary.After(now) && boundary.Sub(now) < 400*time.Hour {
					dt = boundary.Sub(now)
					rel = "on-boundary"
				} else {
					dt = time.Second
				}
			case 4: // one nanosecond after the boundary
				if boundary.After(now) && boundary.Sub(now) < 400*time.Hour {
					dt = boundary.Sub(now) + 1
					rel = "1ns-after-boundary"
				} else {
					dt = time.Second
				}
			case 5: // one nanosecond before the boundary
				if boundary.Sub(now) > 1 && boundary.Sub(now) < 400*time.Hour {
					dt = boundary.Sub(now) - 1
					rel = "1ns-before-boundary"
				} else {
					dt = time.Second
				}
			case 6: // multi-duration gap
				dt = time.Duration(2+r.Intn(6)) * time.Minute
				rel = "multi-gap"
			default:
				dt = time.Duration(1+r.Intn(70)) * time.Second
			}
			trace = trace[:0]
			if !c.BeginBlock(dt) {
				st.Violate("begin-block-panic", "", hist, b, "BeginBlock panicked: %s", c.Panics[len(c.Panics)-1].Value)
				break
			}
			now = c.Header.Time
			h := c.Height()
			// step the reference
			var want []epochstypes.VerifHookCall
			ticking := 0
			first := false
			for _, id := range ids {
				re := refs[id]
				if now.Before(re.start) {
					continue
				}
				if !re.started {
					re.started, re.n, re.curStart, re.curH = true, 1, re.start, h
					ticking++
					first = true
					for si, sub := range subscriberOrder {
						want = append(want, epochstypes.VerifHookCall{Index: si, Subscriber: sub, Kind: "BeforeEpochStart", Identifier: id, Number: 1, Height: h})
					}
					continue
				}
				if now.After(re.curStart.Add(re.dur)) {
					ticking++
					for si, sub := range subscriberOrder {
						want = append(want, epochstypes.VerifHookCall{Index: si, Subscriber: sub, Kind: "AfterEpochEnd", Identifier: id, Number: re.n, Height: h})
					}
					re.n++
					re.curStart = re.curStart.Add(re.dur)
					re.curH = h
					for si, sub := range subscriberOrder {
						want = append(want, epochstypes.VerifHookCall{Index: si, Subscriber: sub, Kind: "BeforeEpochStart", Identifier: id, Number: re.n, Height: h})
					}
				}
			}
			// compare the trace
			st.Eval("notification-trace")
			if len(trace) != len(want) {
				st.Violate("notification-trace", "count", hist, b, "block %d (t=%s): %d notifications delivered, want %d; got %v want %v", h, now.Format(time.RFC3339Nano), len(trace), len(want), brief(trace), brief(want))
			} else {
				for k := range want {
					if trace[k] != want[k] {
						st.Violate("notification-trace", "order-or-content", hist, b, "block %d: notification %d is %+v, want %+v", h, k, trace[k], want[k])
						break
					}
				}
			}
			// compare the stored clock
			snap := c.Snapshot()
			for _, id := range ids {
				re := refs[id]
				got, ok := snap.Epochs[id]
				st.Eval("clock")
				if !ok {
					st.Violate("clock", "missing", hist, b, "identifier %s missing from the store", id)
					continue
				}
				if got.CurrentEpoch != re.n || got.EpochCountingStarted != re.started || !got.CurrentEpochStartTime.Equal(re.curStart) || (re.started && got.CurrentEpochStartHeight != re.curH && re.n > 0 && !(re.curH == 0 && got.CurrentEpochStartHeight <= 1)) {
					st.Violate("clock", "state", hist, b, "block %d t=%s identifier %s: stored {n=%d started=%v start=%s h=%d}, reference {n=%d started=%v start=%s h=%d}", h, now.Format(time.RFC3339Nano), id,
						got.CurrentEpoch, got.EpochCountingStarted, got.CurrentEpochStartTime.Format(time.RFC3339Nano), got.CurrentEpochStartHeight, re.n, re.started, re.curStart.Format(time.RFC3339Nano), re.curH)
				}
				if re.started && re.n >= 1 && !loose[id] && !got.CurrentEpochStartTime.Equal(re.start.Add(time.Duration(re.n-1)*re.dur)) {
					st.Violate("clock", "nth-start-time", hist, b, "identifier %s epoch %d starts at %s, want start+(n-1)*duration=%s", id, re.n, got.CurrentEpochStartTime, re.start.Add(time.Duration(re.n-1)*re.dur))
				}
			}
			if ticking > 0 || rel != "free" {
				st.Case(fmt.Sprintf("%s|first=%v|ticking=%d", rel, first, minInt(ticking, 4)))
			}
			if len(sample) < 8 {
				sample = append(sample, map[string]interface{}{"height": h, "dt": dt.String(), "relation": rel, "ticking": ticking, "notifications": len(trace)})
			}
			if _, ok := c.FinishBlock(); !ok {
				st.Violate("end-block-panic", "", hist, b, "EndBlock/Commit panicked: %s", c.Panics[len(c.Panics)-1].Value)
				break
			}
			res.Blocks++
		}
		epochstypes.VerifHookRecorder = nil
		res.Histories++
		if len(st.Samples) < 3 {
			var idl []map[string]interface{}
			for _, e := range eps {
				idl = append(idl, map[string]interface{}{"id": e.Identifier, "duration": e.Duration.String(), "start": e.StartTime.String(), "current": e.CurrentEpoch})
			}
			st.Sample(map[string]interface{}{"history": hist, "identifiers": idl, "first_blocks": sample})
		}
	}
	res.AddStats(st)
	return res
}

func brief(t []epochstypes.VerifHookCall) []string {
	var out []string
	for i, c := range t {
		if i > 12 {
			out = append(out, "...")
			break
		}
		out = append(out, fmt.Sprintf("%d:%s:%s#%d", c.Index, c.Kind[:5], c.Identifier, c.Number))
	}
	return out
}

func minInt(a, b int) int {
	if a < b {
		return a
	}
	return b
}
