// Package evm holds a tiny EVM assembler and the hand-assembled helper contracts (no Solidity compiler in the sandbox).
package evm

import "fmt"

// opcodes used
const (
	STOP           = 0x00
	SUB            = 0x03
	EQ             = 0x14
	SHR            = 0x1c
	CALLDATALOAD   = 0x35
	CALLDATASIZE   = 0x36
	CALLVALUE      = 0x34
	CALLDATACOPY   = 0x37
	CODECOPY       = 0x39
	RETURNDATASIZE = 0x3d
	RETURNDATACOPY = 0x3e
	POP            = 0x50
	MLOAD          = 0x51
	MSTORE         = 0x52
	SLOAD          = 0x54
	SSTORE         = 0x55
	JUMP           = 0x56
	JUMPI          = 0x57
	GAS            = 0x5a
	JUMPDEST       = 0x5b
	PUSH1          = 0x60
	DUP1           = 0x80
	DUP3           = 0x82
	SWAP1          = 0x90
	CALL           = 0xf1
	RETURN         = 0xf3
	REVERT         = 0xfd
)

type item struct {
	op    byte
	imm   []byte
	label string // PUSH1 <label>
	def   string // label definition (emits JUMPDEST)
}

// Asm is a two-pass assembler with one-byte labels.
type Asm struct{ items []item }

func (a *Asm) Op(ops ...byte) *Asm {
	for _, o := range ops {
		a.items = append(a.items, item{op: o})
	}
	return a
}
func (a *Asm) Push1(v byte) *Asm {
	a.items = append(a.items, item{op: PUSH1, imm: []byte{v}})
	return a
}
func (a *Asm) PushLabel(l string) *Asm {
	a.items = append(a.items, item{op: PUSH1, label: l})
	return a
}
func (a *Asm) Label(l string) *Asm { a.items = append(a.items, item{op: JUMPDEST, def: l}); return a }

func (a *Asm) Bytes() []byte {
	pos := map[string]int{}
	pc := 0
	for _, it := range a.items {
		if it.def != "" {
			pos[it.def] = pc
		}
		pc++
		if it.op == PUSH1 {
			pc++
		}
	}
	var out []byte
	for _, it := range a.items {
		out = append(out, it.op)
		if it.op == PUSH1 {
			if it.label != "" {
				p, ok := pos[it.label]
				if !ok || p > 255 {
					panic(fmt.Sprintf("label %s unresolved", it.label))
				}
				out = append(out, byte(p))
			} else {
				out = append(out, it.imm...)
			}
		}
	}
	return out
}

// Deploy wraps runtime code into init code that returns it.
func Deploy(runtime []byte) []byte {
	if len(runtime) > 255 {
		panic("runtime too long for the one-byte deployer")
	}
	// PUSH1 len DUP1 PUSH1 off PUSH1 0 CODECOPY PUSH1 0 RETURN
	init := []byte{PUSH1, byte(len(runtime)), DUP1, PUSH1, 0, PUSH1, 0, CODECOPY, PUSH1, 0, RETURN}
	init[4] = byte(len(init))
	return append(init, runtime...)
}

// ProxyRuntime: calldata = target(20 bytes) | mode(1 byte) | payload. Calls target with payload (all gas, no value),
// then mode 0: RETURN the return data; mode 1: REVERT with the return data; mode 2: burn all gas in a loop;
// mode 3: SSTORE(0, 1) then RETURN (a state change of its own before returning).
func ProxyRuntime() []byte { return proxyRuntime(false) }

// PayProxyRuntime is ProxyRuntime forwarding the value it was called with to the target.
func PayProxyRuntime() []byte { return proxyRuntime(true) }

func proxyRuntime(forwardValue bool) []byte {
	a := &Asm{}
	a.Op(CALLDATASIZE).Push1(21).Op(SWAP1, SUB)    // [len]
	a.Op(DUP1).Push1(21).Push1(0).Op(CALLDATACOPY) // mem[0..len) = payload ; [len]
	a.Push1(0).Push1(0).Op(DUP3).Push1(0)          // retSize retOffset argsSize argsOffset
	if forwardValue {
		a.Op(CALLVALUE)
	} else {
		a.Push1(0)
	}
	a.Push1(0).Op(CALLDATALOAD).Push1(96).Op(SHR) // addr
	a.Op(GAS, CALL)                               // [success, len]
	a.Op(POP, POP)
	a.Op(RETURNDATASIZE).Push1(0).Push1(0).Op(RETURNDATACOPY)
	a.Push1(20).Op(CALLDATALOAD).Push1(248).Op(SHR) // [mode]
	a.Op(DUP1).Push1(1).Op(EQ).PushLabel("revert").Op(JUMPI)
	a.Op(DUP1).Push1(2).Op(EQ).PushLabel("loop").Op(JUMPI)
	a.Op(DUP1).Push1(3).Op(EQ).PushLabel("store").Op(JUMPI)
	a.Op(POP).Op(RETURNDATASIZE).Push1(0).Op(RETURN)
	a.Label("revert").Op(RETURNDATASIZE).Push1(0).Op(REVERT)
	a.Label("loop").PushLabel("loop").Op(JUMP)
	a.Label("store").Push1(1).Push1(0).Op(SSTORE).Op(RETURNDATASIZE).Push1(0).Op(RETURN)
	return a.Bytes()
}

// StoreWriterRuntime: SSTORE(0, calldata word 0) and return; with calldata word 1 != 0 it reverts afterwards.
func StoreWriterRuntime() []byte {
	a := &Asm{}
	a.Push1(0).Op(CALLDATALOAD).Push1(0).Op(SSTORE)
	a.Push1(32).Op(CALLDATALOAD).PushLabel("rev").Op(JUMPI)
	a.Op(STOP)
	a.Label("rev").Push1(0).Push1(0).Op(REVERT)
	return a.Bytes()
}
