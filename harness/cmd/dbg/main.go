package main

import (
	"fmt"
	"math/rand"
	"time"

	sdkmath "cosmossdk.io/math"
	abci "github.com/cometbft/cometbft/abci/types"

	"verif/ops"
	"verif/sim"
)

func main() {
	r := rand.New(rand.NewSource(5))
	cfg := sim.DefaultConfig(3, []int64{100, 200, 300})
	c, _ := sim.NewChain(cfg)
	w := ops.NewWorld(c, r)
	w.Dt = 5 * time.Second
	w.Start()
	ex := &ops.Oper{Acct: cfg.Accounts[5]}
	w.Opers = append(w.Opers, ex)
	st := w.RegisterOperator(ex)
	fmt.Println("register", st.Ack, st.Err)
	s := w.AddStaker(101, sim.NewAccount("x").Eth.Bytes())
	st = w.Deposit(s, w.Assets[0], sdkmath.NewInt(5000))
	fmt.Println("deposit", st.Ack, st.Err)
	st = w.Delegate(s, w.Assets[0], ex, sdkmath.NewInt(5000))
	fmt.Println("delegate", st.Ack, st.Err)
	for k := 0; k < 3; k++ {
		w.Advance(w.Dt)
	}
	v := c.ValSet.Validators[1]
	c.NextEvidence = append(c.NextEvidence, abci.Misbehavior{Type: abci.MisbehaviorType_DUPLICATE_VOTE, Validator: abci.Validator{Address: v.Address, Power: v.VotingPower},
		Height: c.Height() - 1, Time: c.Header.Time.Add(-w.Dt), TotalVotingPower: c.ValSet.TotalVotingPower()})
	_, perr := c.App.SlashingKeeper.GetPubkey(c.Ctx(), v.Address.Bytes())
	fmt.Println("getpubkey err:", perr, "has signing info:", c.App.SlashingKeeper.HasValidatorSigningInfo(c.Ctx(), v.Address.Bytes()))
	val := c.App.StakingKeeper.ValidatorByConsAddr(c.Ctx(), v.Address.Bytes())
	fmt.Println("validator nil?", val == nil)
	if val != nil {
		fmt.Println(" unbonded?", val.IsUnbonded(), "jailed", val.IsJailed(), "operator", val.GetOperator())
	}
	cp := c.Ctx().ConsensusParams()
	fmt.Println("consensus params evidence:", cp != nil && cp.Evidence != nil)
	w.EndBlock()
	st = w.NextBlock(w.Dt)
	fmt.Println("begin with evidence", st.Ack, st.Panic)
	n := 0
	for k := range w.Last.Raw["operator"] {
		if k[0] == 5 {
			n++
		}
	}
	fmt.Println("slash infos", n, "jailed?", w.Last.Op.Opted)
}
