package main

import (
	"fmt"

	dogfoodtypes "github.com/ExocoreNetwork/exocore/x/dogfood/types"
)

func main() {
	fmt.Println("validator", dogfoodtypes.ExocoreValidatorBytePrefix, "optouts", dogfoodtypes.OptOutsToFinishBytePrefix, "optoutepoch", dogfoodtypes.OperatorOptOutFinishEpochBytePrefix,
		"prune", dogfoodtypes.ConsensusAddrsToPruneBytePrefix, "maturity", dogfoodtypes.UnbondingReleaseMaturityBytePrefix, "hist", dogfoodtypes.HistoricalInfoBytePrefix)
}
