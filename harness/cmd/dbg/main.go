package main

import (
	"fmt"
	"math/rand"

	"verif/ops"
)

type dbgMon struct{ n int }

func (d *dbgMon) OnStep(w *ops.World, st *ops.Step) {
	if st.Kind == "begin_block" && st.Post != nil && len(st.Post.Dog.PendingOptOuts) > 0 {
		fmt.Println("closing block", st.Height, "pending", st.Post.Dog.PendingOptOuts, "steps so far", st.I)
		for k, dl := range st.Post.Ledger.Delegation {
			for _, po := range st.Post.Dog.PendingOptOuts {
				if len(k) > len(po) && k[len(k)-len(po):] == po && dl.UndelegatableShare.IsPositive() {
					fmt.Println("   delegation", k, dl.UndelegatableShare)
				}
			}
		}
	}
}

func main() {
	for i := 0; i < 12; i++ {
		seed := int64(1)
		o := ops.DefaultLedgerOpts()
		r := rand.New(rand.NewSource(seed*7919 + int64(i)))
		o.NOps = 2 + r.Intn(4)
		o.ExtraOps = 1 + r.Intn(3)
		o.NStakers = 3 + r.Intn(6)
		o.Steps = 100 + r.Intn(80)
		o.Unbond = uint32(1 + r.Intn(3))
		o.Profile = "queues"
		w, err := ops.BuildLedgerWorld(seed, i, o)
		if err != nil {
			panic(err)
		}
		w.Monitors = []ops.Monitor{&dbgMon{}}
		w.RunLedger(o)
		fmt.Println("history", i, "steps", len(w.Steps), "target", o.Steps)
	}
}
