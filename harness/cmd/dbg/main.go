package main

import (
	"fmt"
	"os"

	"verif/eng"
)

func main() {
	os.Setenv("VERIF_C14_DEBUG", "1")
	e, _ := eng.Get("oracle14")
	res := e(eng.Job{Prop: "C14", Engine: "oracle14", Tier: "quick", Seed: 1, From: 3, To: 4})
	for _, v := range res.Stats["C14"].Viol[:3] {
		fmt.Println(v.Sig, v.Step, v.Detail)
	}
}
