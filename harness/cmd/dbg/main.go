package main

import (
	"fmt"
	"os"
	"strings"

	"verif/eng"
)

func main() {
	e, _ := eng.Get("oracle")
	os.Setenv("VERIF_DEBUG_PANIC", "1")
	res := e(eng.Job{Prop: "C13", Engine: "oracle", Tier: "quick", Seed: 1, From: 27, To: 28, Verbose: true})
	for _, v := range res.Stats["C13"].Viol {
		if strings.Contains(v.Detail, "nil pointer") {
			fmt.Println(v.Sig, v.Step)
		}
	}
}
