package main

import (
	"fmt"
	"math/rand"
	"strings"

	"verif/ops"
)

type dbgMon struct{ done bool }

func (d *dbgMon) OnStep(w *ops.World, st *ops.Step) {
	if d.done || !strings.Contains(st.Err, "coinbase") {
		return
	}
	d.done = true
	c := w.C
	ctx := c.Ctx()
	prop := c.Header.ProposerAddress
	fmt.Printf("step %d h=%d proposer %X\n", st.I, st.Height, prop)
	for _, o := range w.Opers {
		for _, k := range o.Keys {
			if string(k.ConsAddr()) == string(prop) {
				fmt.Println("  proposer is", o.Acct.Name, k.Name, "state", ops.OperState(w, o))
			}
		}
	}
	found, oa := c.App.OperatorKeeper.GetOperatorAddressForChainIDAndConsAddr(ctx, "exocore_233", prop)
	fmt.Println("  reverse lookup", found, oa)
	if found {
		f2, key, err := c.App.OperatorKeeper.GetOperatorConsKeyForChainID(ctx, oa, "exocore_233")
		fmt.Println("  cons key", f2, key != nil, err)
		v, err := c.App.OperatorKeeper.GetOrCalculateOperatorUSDValues(ctx, oa, w.AVSAddr)
		fmt.Println("  usd", v, err)
	}
}

func main() {
	seed, i := int64(1), 436
	o := ops.DefaultLedgerOpts()
	r := rand.New(rand.NewSource(seed*7919 + int64(i)))
	o.NOps = 2 + r.Intn(4)
	o.ExtraOps = 1 + r.Intn(3)
	o.NStakers = 3 + r.Intn(6)
	o.Steps = 100 + r.Intn(80)
	o.Unbond = uint32(1 + r.Intn(3))
	o.Profile = "exit"
	w, err := ops.BuildLedgerWorld(seed, i, o)
	if err != nil {
		panic(err)
	}
	w.Monitors = []ops.Monitor{&dbgMon{}}
	w.RunLedger(o)
}
