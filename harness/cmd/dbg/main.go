package main

import (
	"fmt"
	"math/rand"

	"verif/ops"
)

type dbgMon struct{ n int }

func (d *dbgMon) OnStep(w *ops.World, st *ops.Step) {
	if st.Kind == "undelegate" && st.Ack && d.n < 6 {
		d.n++
		fmt.Println("undelegate step", st.I, "op state", ops.OperState(w, st.Oper), "holds", st.Post.Ledger.Hold, "mature", st.Post.Dog.Mature, "N", st.Post.Dog.Params.EpochsUntilUnbonded, "epoch", st.Post.Epochs[st.Post.Dog.Params.EpochIdentifier].CurrentEpoch)
	}
}

func main() {
	seed, i := int64(1), 260
	o := ops.DefaultLedgerOpts()
	r := rand.New(rand.NewSource(seed*7919 + int64(i)))
	o.NOps = 2 + r.Intn(4)
	o.Profile = "queues"
	w, err := ops.BuildLedgerWorld(seed, i, o)
	if err != nil {
		panic(err)
	}
	w.Monitors = []ops.Monitor{&dbgMon{}}
	w.RunLedger(o)
}
