// runner: one binary for every check.
//
//	runner -prop C03 -tier quick [-seed N]         parent: shards histories over child processes, merges,
//	                                               applies known_findings.json, writes evidence, exits 0/1/2
//	runner -child -job <file>                      child: runs one job, writes its result
//	runner -replay <file>                          re-executes the history a violation came from, verbosely
package main

import (
	"encoding/json"
	"flag"
	"fmt"
	"os"
	"os/exec"
	"path/filepath"
	"runtime"
	"sort"
	"strconv"
	"strings"
	"sync"
	"time"

	"verif/eng"
	"verif/mon"
	"verif/ops"
	"verif/sim"
)

type knownFinding struct {
	Property    string `json:"property"`
	Signature   string `json:"signature"`
	What        string `json:"what"`
	Witness     string `json:"witness,omitempty"`
	Description string `json:"description,omitempty"`
}

type knownFile struct {
	Findings []knownFinding `json:"findings"`
	Fixed    []string       `json:"fixed"`
}

func verifDir() string {
	if d := os.Getenv("VERIF_DIR"); d != "" {
		return d
	}
	return "/verif"
}

func main() {
	prop := flag.String("prop", "", "property id")
	tier := flag.String("tier", "quick", "quick|thorough")
	seedF := flag.Int64("seed", -1, "seed (default VERIF_SEED or 1)")
	child := flag.Bool("child", false, "child mode")
	jobFile := flag.String("job", "", "job file (child mode)")
	replay := flag.String("replay", "", "replay file")
	n := flag.Int("n", 0, "override number of histories")
	procs := flag.Int("procs", 0, "child processes (default: cores)")
	flag.Parse()

	if *child {
		runChild(*jobFile)
		return
	}
	if *replay != "" {
		runReplay(*replay)
		return
	}
	seed := *seedF
	if seed < 0 {
		seed = 1
		if s := os.Getenv("VERIF_SEED"); s != "" {
			if v, err := strconv.ParseInt(s, 10, 64); err == nil {
				seed = v
			}
		}
	}
	if t := os.Getenv("VERIF_TIER"); t != "" && *tier == "" {
		*tier = t
	}
	os.Exit(runParent(*prop, *tier, seed, *n, *procs))
}

func runChild(jobFile string) {
	bz, err := os.ReadFile(jobFile)
	if err != nil {
		fmt.Fprintln(os.Stderr, err)
		os.Exit(3)
	}
	var j eng.Job
	if err := json.Unmarshal(bz, &j); err != nil {
		fmt.Fprintln(os.Stderr, err)
		os.Exit(3)
	}
	e, err := eng.Get(j.Engine)
	if err != nil {
		fmt.Fprintln(os.Stderr, err)
		os.Exit(3)
	}
	res := e(j)
	ops.TraceFlush()
	if sim.NoiseQueries > 0 {
		res.Counters["dry-run-queries"] = sim.NoiseQueries
		res.Counters["dry-run-queries-answered-ok"] = sim.NoiseOK
	}
	if err := res.Write(j.Out); err != nil {
		fmt.Fprintln(os.Stderr, err)
		os.Exit(3)
	}
}

type replayFile struct {
	Property  string        `json:"property"`
	Signature string        `json:"signature"`
	Job       eng.Job       `json:"job"`
	Violation mon.Violation `json:"violation"`
	HowTo     string        `json:"how_to"`
}

func runReplay(path string) {
	bz, err := os.ReadFile(path)
	if err != nil {
		fmt.Fprintln(os.Stderr, err)
		os.Exit(3)
	}
	var rf replayFile
	if err := json.Unmarshal(bz, &rf); err != nil {
		fmt.Fprintln(os.Stderr, err)
		os.Exit(3)
	}
	e, err := eng.Get(rf.Job.Engine)
	if err != nil {
		fmt.Fprintln(os.Stderr, err)
		os.Exit(3)
	}
	j := rf.Job
	j.Verbose = true
	fmt.Printf("replaying %s history %d (seed %d, engine %s/%s)\n", rf.Property, j.From, j.Seed, j.Engine, j.Variant)
	res := e(j)
	bad := 0
	if s, ok := res.Stats[rf.Property]; ok {
		for _, v := range s.Viol {
			fmt.Printf("VIOLATION-DETAIL property=%s sig=%s step=%d: %s\n", v.Prop, v.Sig, v.Step, v.Detail)
			bad++
		}
	}
	if bad > 0 {
		fmt.Printf("VIOLATION property=%s replay=%s\n", rf.Property, path)
		os.Exit(1)
	}
	fmt.Println("replay: no violation reproduced")
}

func histIndex(h string) int {
	p := strings.Split(h, ":")
	if len(p) == 0 {
		return -1
	}
	v, err := strconv.Atoi(p[len(p)-1])
	if err != nil {
		return -1
	}
	return v
}

func runParent(prop, tier string, seed int64, nOverride, procs int) int {
	t0 := time.Now()
	plan, ok := eng.GetPlan(prop)
	if !ok {
		fmt.Fprintf(os.Stderr, "no plan for property %q; have %v\n", prop, eng.Props())
		return 3
	}
	n := plan.Quick
	if tier == "thorough" {
		n = plan.Thorough
	}
	if nOverride > 0 {
		n = nOverride
	}
	if procs <= 0 {
		procs = runtime.NumCPU()
	}
	scratch := os.Getenv("VERIF_SCRATCH")
	if scratch == "" {
		scratch = fmt.Sprintf("/var/tmp/verif-%d", os.Getpid())
	}
	os.MkdirAll(scratch, 0o755)
	defer os.RemoveAll(scratch)

	total := eng.NewResult()
	attempt := 0
	for {
		res := runSharded(plan, tier, seed, n*attempt, n*(attempt+1), procs, scratch)
		total.Merge(res)
		st := total.Stats[prop]
		if total.Inconclusive != "" || len(st.Distinct) >= plan.MinCases || attempt >= 1 {
			break
		}
		// too few non-trivial cases: retry once with a 3x budget (DESIGN §1)
		attempt++
		n *= 3
	}
	st := total.Stats[prop]
	wall := time.Since(t0).Seconds()

	// known findings
	kf := knownFile{}
	if bz, err := os.ReadFile(filepath.Join(verifDir(), "known_findings.json")); err == nil {
		_ = json.Unmarshal(bz, &kf)
	}
	known := map[string]knownFinding{}
	var knownPatterns []knownFinding
	for _, f := range kf.Findings {
		if f.Property == prop {
			if strings.Contains(f.Signature, "*") {
				knownPatterns = append(knownPatterns, f)
			} else {
				known[f.Signature] = f
			}
		}
	}
	matchKnown := func(sig string) (knownFinding, bool) {
		if f, ok := known[sig]; ok {
			return f, true
		}
		for _, f := range knownPatterns {
			// '*' matches any run of characters; everything else is literal
			parts := strings.Split(f.Signature, "*")
			rest, ok := sig, true
			for i, p := range parts {
				idx := strings.Index(rest, p)
				if idx < 0 || (i == 0 && idx != 0) {
					ok = false
					break
				}
				rest = rest[idx+len(p):]
			}
			if ok && (rest == "" || strings.HasSuffix(f.Signature, "*")) {
				return f, true
			}
		}
		return knownFinding{}, false
	}
	knownPrinted := map[string]bool{}
	bySig := map[string][]mon.Violation{}
	for _, v := range st.Viol {
		bySig[v.Sig] = append(bySig[v.Sig], v)
	}
	var sigs []string
	for s := range bySig {
		sigs = append(sigs, s)
	}
	sort.Strings(sigs)
	exit := 0
	unknown := 0
	knownSeen := 0
	os.MkdirAll(filepath.Join(verifDir(), "replays"), 0o755)
	for _, s := range sigs {
		v := bySig[s][0]
		if f, ok := matchKnown(s); ok {
			if !knownPrinted[f.Signature] {
				fmt.Printf("KNOWN-FINDING: property=%s %s [%s] (%d occurrence(s) as %s; e.g. %s)\n", prop, f.What, f.Signature, len(bySig[s]), s, oneLine(trunc(v.Detail, 160)))
				knownPrinted[f.Signature] = true
			}
			knownSeen++
			continue
		}
		unknown++
		hi := histIndex(v.Hist)
		rp := filepath.Join(verifDir(), "replays", fmt.Sprintf("%s-%d-%d-%s.json", prop, seed, hi, sanitize(s)))
		rf := replayFile{Property: prop, Signature: s, Violation: v,
			Job:   eng.Job{Prop: prop, Engine: plan.Engine, Variant: plan.Variant, Tier: tier, Seed: seed, From: hi, To: hi + 1},
			HowTo: "./check " + prop + " --replay " + rp}
		if hi < 0 {
			rf.Job.From, rf.Job.To = 0, 1
		}
		bz, _ := json.MarshalIndent(rf, "", " ")
		_ = os.WriteFile(rp, bz, 0o644)
		fmt.Printf("VIOLATION-DETAIL property=%s sig=%s history=%s step=%d (%d occurrence(s)): %s\n", prop, s, v.Hist, v.Step, len(bySig[s]), oneLine(trunc(v.Detail, 700)))
		fmt.Printf("VIOLATION property=%s replay=%s\n", prop, rp)
		exit = 1
	}
	inconclusive := total.Inconclusive
	if inconclusive == "" && len(st.Distinct) < plan.MinCases && len(st.Distinct) < 2 {
		inconclusive = fmt.Sprintf("only %d distinct non-trivial case classes observed (need >= %d)", len(st.Distinct), plan.MinCases)
	}
	if inconclusive == "" && st.Evals == 0 {
		inconclusive = "monitor evaluated nothing"
	}

	// evidence
	distinct := st.Distinct
	samples := st.Samples
	if len(samples) == 0 {
		samples = []interface{}{"no sample recorded"}
	}
	ev := map[string]interface{}{
		"property_id": prop, "tier": tier, "seed": seed, "level": plan.Level, "wall_s": wall,
		"violations": unknown,
		"assumptions": append([]string{
			"harness built with -tags verif against /repo working tree via go.mod replace",
			"the in-process ABCI driver (sim.Chain) calls the app the way CometBFT does: BeginBlock, DeliverTx*, EndBlock, Commit",
		}, plan.Assume...),
		"coverage": map[string]interface{}{
			"evaluations":         st.Evals,
			"distinct_nontrivial": len(distinct),
			"rule":                plan.Rule,
			"samples":             samples,
			"distinct_classes":    distinct,
			"evaluations_by_rule": st.Rules,
			"histories":           total.Histories,
			"steps":               total.Steps,
			"blocks":              total.Blocks,
			"counters":            total.Counters,
			"known_findings_seen": knownSeen,
			"notes":               capNotes(extraNotes(total.Notes), 20),
			"verdict":             verdict(exit, inconclusive),
		},
	}
	os.MkdirAll(filepath.Join(verifDir(), "evidence"), 0o755)
	bz, _ := json.MarshalIndent(ev, "", " ")
	_ = os.WriteFile(filepath.Join(verifDir(), "evidence", prop+".json"), bz, 0o644)

	fmt.Printf("%s %s seed=%d: histories=%d steps=%d blocks=%d evals=%d distinct=%d violations(unknown)=%d known=%d wall=%.1fs\n",
		prop, tier, seed, total.Histories, total.Steps, total.Blocks, st.Evals, len(distinct), unknown, knownSeen, wall)
	if exit == 0 && inconclusive != "" {
		fmt.Printf("INCONCLUSIVE property=%s reason=%s\n", prop, inconclusive)
		return 2
	}
	return exit
}

func oneLine(s string) string {
	return strings.Join(strings.Fields(s), " ")
}

func verdict(exit int, inc string) string {
	if exit != 0 {
		return "violated"
	}
	if inc != "" {
		return "inconclusive: " + inc
	}
	return "held on what was observed"
}

func capNotes(n []string, k int) []string {
	if len(n) > k {
		return append(n[:k:k], fmt.Sprintf("... %d more", len(n)-k))
	}
	return n
}

func sanitize(s string) string {
	out := make([]rune, 0, len(s))
	for _, r := range s {
		if (r >= 'a' && r <= 'z') || (r >= 'A' && r <= 'Z') || (r >= '0' && r <= '9') || r == '-' {
			out = append(out, r)
		} else {
			out = append(out, '_')
		}
	}
	if len(out) > 60 {
		out = out[:60]
	}
	return string(out)
}

func trunc(s string, n int) string {
	if len(s) > n {
		return s[:n] + "…"
	}
	return s
}

// runSharded runs histories [from,to) over child processes.
func runSharded(plan eng.Plan, tier string, seed int64, from, to, procs int, scratch string) *eng.Result {
	total := eng.NewResult()
	self, _ := os.Executable()
	n := to - from
	if plan.Serial || n <= 1 {
		procs = 1
	}
	if procs > n {
		procs = n
	}
	var wg sync.WaitGroup
	var mu sync.Mutex
	per := (n + procs - 1) / procs
	for p := 0; p < procs; p++ {
		a := from + p*per
		b := a + per
		if b > to {
			b = to
		}
		if a >= b {
			continue
		}
		wg.Add(1)
		go func(p, a, b int) {
			defer wg.Done()
			job := eng.Job{Prop: plan.Prop, Engine: plan.Engine, Variant: plan.Variant, Tier: tier, Seed: seed, From: a, To: b,
				Out: filepath.Join(scratch, fmt.Sprintf("res-%d-%d.json", a, b)), Scratch: filepath.Join(scratch, fmt.Sprintf("w%d", p))}
			os.MkdirAll(job.Scratch, 0o755)
			jf := filepath.Join(scratch, fmt.Sprintf("job-%d-%d.json", a, b))
			bz, _ := json.Marshal(job)
			os.WriteFile(jf, bz, 0o644)
			logf := filepath.Join(scratch, fmt.Sprintf("log-%d-%d.txt", a, b))
			lf, _ := os.Create(logf)
			wd := 3600
			if tier == "thorough" {
				wd = 6 * 3600
			}
			cmd := exec.Command("timeout", "-s", "QUIT", strconv.Itoa(wd), self, "-child", "-job", jf)
			cmd.Stdout = lf
			cmd.Stderr = lf
			err := cmd.Run()
			lf.Close()
			mu.Lock()
			defer mu.Unlock()
			res, rerr := eng.ReadResult(job.Out)
			if err != nil || rerr != nil {
				tail := ""
				if bz, e := os.ReadFile(logf); e == nil {
					if len(bz) > 3000 {
						bz = bz[len(bz)-3000:]
					}
					tail = string(bz)
				}
				total.Notes = append(total.Notes, fmt.Sprintf("child [%d,%d) failed: %v %v\n%s", a, b, err, rerr, tail))
				if total.Inconclusive == "" {
					total.Inconclusive = fmt.Sprintf("child process for histories [%d,%d) died or timed out (%v)", a, b, err)
				}
				fmt.Fprintf(os.Stderr, "child [%d,%d) failed: %v %v\n%s\n", a, b, err, rerr, tail)
				return
			}
			total.Merge(res)
		}(p, a, b)
	}
	wg.Wait()
	return total
}

// extraNotes prepends what the check script measured outside this process (e.g. the sanitizer pass of C11).
func extraNotes(n []string) []string {
	if x := os.Getenv("VERIF_EXTRA_NOTE"); x != "" {
		return append([]string{x}, n...)
	}
	return n
}
