package sim

import (
	"bytes"
	"fmt"
	"math/big"
	"os"
	"path/filepath"

	sdkmath "cosmossdk.io/math"
	abci "github.com/cometbft/cometbft/abci/types"
	"github.com/cosmos/cosmos-sdk/client"
	clienttx "github.com/cosmos/cosmos-sdk/client/tx"
	codectypes "github.com/cosmos/cosmos-sdk/codec/types"
	cryptotypes "github.com/cosmos/cosmos-sdk/crypto/types"
	sdk "github.com/cosmos/cosmos-sdk/types"
	"github.com/cosmos/cosmos-sdk/types/tx/signing"
	authsigning "github.com/cosmos/cosmos-sdk/x/auth/signing"
	authtx "github.com/cosmos/cosmos-sdk/x/auth/tx"
	"github.com/cosmos/gogoproto/proto"
	"github.com/ethereum/go-ethereum/accounts/abi"
	"github.com/ethereum/go-ethereum/common"
	ethtypes "github.com/ethereum/go-ethereum/core/types"
	evmtypes "github.com/evmos/evmos/v16/x/evm/types"

	testutiltx "github.com/ExocoreNetwork/exocore/testutil/tx"
	"github.com/ExocoreNetwork/exocore/utils"
)

var (
	AddrAssets     = common.HexToAddress("0x0000000000000000000000000000000000000804")
	AddrDelegation = common.HexToAddress("0x0000000000000000000000000000000000000805")
	AddrReward     = common.HexToAddress("0x0000000000000000000000000000000000000806")
	AddrSlash      = common.HexToAddress("0x0000000000000000000000000000000000000807")
	AddrBLS        = common.HexToAddress("0x0000000000000000000000000000000000000809")
	AddrAVS        = common.HexToAddress("0x0000000000000000000000000000000000000901")
)

// RepoDir is where the code under test lives.
func RepoDir() string {
	if d := os.Getenv("VERIF_REPO"); d != "" {
		return d
	}
	return "/repo"
}

var abiCache = map[string]abi.ABI{}

// ABI loads precompiles/<name>/abi.json from the repo working tree.
func ABI(name string) abi.ABI {
	if a, ok := abiCache[name]; ok {
		return a
	}
	bz, err := os.ReadFile(filepath.Join(RepoDir(), "precompiles", name, "abi.json"))
	if err != nil {
		panic(err)
	}
	a, err := abi.JSON(bytes.NewReader(bz))
	if err != nil {
		panic(err)
	}
	abiCache[name] = a
	return a
}

// CosmosTxOpts tweak signing for negative tests.
type CosmosTxOpts struct {
	Gas         uint64
	SignWith    cryptotypes.PrivKey // default: signer's key
	SeqDelta    int64               // added to the real sequence
	ChainID     string              // default chain id
	NoSignature bool
	FeeAmount   *sdkmath.Int
}

// CosmosTx builds and signs a cosmos tx from acct with msgs.
func (c *Chain) CosmosTx(ctx sdk.Context, acct *Account, opts CosmosTxOpts, msgs ...sdk.Msg) ([]byte, error) {
	txb := c.TxCfg.NewTxBuilder()
	gas := opts.Gas
	if gas == 0 {
		gas = 3_000_000
	}
	txb.SetGasLimit(gas)
	var fee sdkmath.Int
	if opts.FeeAmount != nil {
		fee = *opts.FeeAmount
	} else {
		bf := c.App.FeeMarketKeeper.GetBaseFee(ctx)
		if bf == nil {
			bf = big.NewInt(1_000_000_000)
		}
		fee = sdkmath.NewIntFromBigInt(bf).MulRaw(int64(gas))
	}
	txb.SetFeeAmount(sdk.Coins{{Denom: utils.BaseDenom, Amount: fee}})
	if err := txb.SetMsgs(msgs...); err != nil {
		return nil, err
	}
	a := c.App.AccountKeeper.GetAccount(ctx, acct.Acc)
	var seq, accNum uint64
	if a != nil {
		seq, accNum = a.GetSequence(), a.GetAccountNumber()
	}
	seq = uint64(int64(seq) + opts.SeqDelta)
	priv := cryptotypes.PrivKey(acct.Priv)
	if opts.SignWith != nil {
		priv = opts.SignWith
	}
	mode := c.TxCfg.SignModeHandler().DefaultMode()
	sig := signing.SignatureV2{PubKey: priv.PubKey(), Data: &signing.SingleSignatureData{SignMode: mode}, Sequence: seq}
	if err := txb.SetSignatures(sig); err != nil {
		return nil, err
	}
	if !opts.NoSignature {
		chainID := c.ChainID
		if opts.ChainID != "" {
			chainID = opts.ChainID
		}
		sd := authsigning.SignerData{ChainID: chainID, AccountNumber: accNum, Sequence: seq}
		s2, err := clienttx.SignWithPrivKey(mode, sd, txb, priv, c.TxCfg, seq)
		if err != nil {
			return nil, err
		}
		if err := txb.SetSignatures(s2); err != nil {
			return nil, err
		}
	}
	return c.TxCfg.TxEncoder()(txb.GetTx())
}

// EthTxArgs describes an Ethereum transaction.
type EthTxArgs struct {
	From      *Account
	To        *common.Address
	Data      []byte
	Value     *big.Int
	GasLimit  uint64
	Nonce     *uint64 // default: current
	Type      int     // 0 legacy, 1 access list, 2 dynamic fee (default 2)
	GasPrice  *big.Int
	GasFeeCap *big.Int
	GasTipCap *big.Int
}

// EthTx builds a signed MsgEthereumTx wrapped in a cosmos tx.
func (c *Chain) EthTx(ctx sdk.Context, a EthTxArgs) ([]byte, *evmtypes.MsgEthereumTx, error) {
	chainID := c.App.EvmKeeper.ChainID()
	nonce := c.App.EvmKeeper.GetNonce(ctx, a.From.Eth)
	if a.Nonce != nil {
		nonce = *a.Nonce
	}
	gl := a.GasLimit
	if gl == 0 {
		gl = 1_000_000
	}
	bf := c.App.FeeMarketKeeper.GetBaseFee(ctx)
	if bf == nil {
		bf = big.NewInt(1_000_000_000)
	}
	args := &evmtypes.EvmTxArgs{ChainID: chainID, Nonce: nonce, To: a.To, Amount: a.Value, GasLimit: gl, Input: a.Data}
	switch a.Type {
	case 0:
		args.GasPrice = a.GasPrice
		if args.GasPrice == nil {
			args.GasPrice = new(big.Int).Set(bf)
		}
		if a.Type == 1 {
			args.Accesses = &ethtypes.AccessList{}
		}
	case 1:
		args.GasPrice = a.GasPrice
		if args.GasPrice == nil {
			args.GasPrice = new(big.Int).Set(bf)
		}
		args.Accesses = &ethtypes.AccessList{}
	default:
		args.GasFeeCap = a.GasFeeCap
		if args.GasFeeCap == nil {
			args.GasFeeCap = new(big.Int).Set(bf)
		}
		args.GasTipCap = a.GasTipCap
		if args.GasTipCap == nil {
			args.GasTipCap = big.NewInt(0)
		}
		args.Accesses = &ethtypes.AccessList{}
	}
	msg := evmtypes.NewTx(args)
	msg.From = a.From.Eth.String()
	signer := ethtypes.LatestSignerForChainID(chainID)
	if err := msg.Sign(signer, testutiltx.NewSigner(a.From.Priv)); err != nil {
		return nil, nil, err
	}
	bz, err := WrapEthMsg(c.TxCfg, msg)
	return bz, msg, err
}

// WrapEthMsgs wraps several signed MsgEthereumTx (possibly of different senders) into one cosmos tx envelope: gas limit
// and fee of the envelope are the sums over the messages, as the ante handler requires.
func WrapEthMsgs(txCfg client.TxConfig, msgs ...*evmtypes.MsgEthereumTx) ([]byte, error) {
	txb := txCfg.NewTxBuilder()
	var sm []sdk.Msg
	gas := uint64(0)
	fee := new(big.Int)
	for _, m := range msgs {
		m.From = ""
		sm = append(sm, m)
		gas += m.GetGas()
		fee.Add(fee, m.GetFee())
	}
	if err := txb.SetMsgs(sm...); err != nil {
		return nil, err
	}
	option, err := codectypes.NewAnyWithValue(&evmtypes.ExtensionOptionsEthereumTx{})
	if err != nil {
		return nil, err
	}
	b, ok := txb.(authtx.ExtensionOptionsTxBuilder)
	if !ok {
		return nil, fmt.Errorf("no extension builder")
	}
	b.SetExtensionOptions(option)
	txb.SetGasLimit(gas)
	txb.SetFeeAmount(sdk.Coins{{Denom: utils.BaseDenom, Amount: sdkmath.NewIntFromBigInt(fee)}})
	return txCfg.TxEncoder()(txb.GetTx())
}

// WrapEthMsg wraps a signed MsgEthereumTx into the cosmos tx envelope.
func WrapEthMsg(txCfg client.TxConfig, msg *evmtypes.MsgEthereumTx) ([]byte, error) {
	txb := txCfg.NewTxBuilder()
	msg.From = ""
	if err := txb.SetMsgs(msg); err != nil {
		return nil, err
	}
	option, err := codectypes.NewAnyWithValue(&evmtypes.ExtensionOptionsEthereumTx{})
	if err != nil {
		return nil, err
	}
	b, ok := txb.(authtx.ExtensionOptionsTxBuilder)
	if !ok {
		return nil, fmt.Errorf("no extension builder")
	}
	b.SetExtensionOptions(option)
	txb.SetGasLimit(msg.GetGas())
	txb.SetFeeAmount(sdk.Coins{{Denom: utils.BaseDenom, Amount: sdkmath.NewIntFromBigInt(msg.GetFee())}})
	return txCfg.TxEncoder()(txb.GetTx())
}

// PrecompileCall packs a call and builds the eth tx.
func (c *Chain) PrecompileTx(ctx sdk.Context, from *Account, pc string, to common.Address, method string, args ...interface{}) ([]byte, error) {
	data, err := ABI(pc).Pack(method, args...)
	if err != nil {
		return nil, err
	}
	bz, _, err := c.EthTx(ctx, EthTxArgs{From: from, To: &to, Data: data, GasLimit: 2_000_000})
	return bz, err
}

// EthResult is the decoded outcome of a delivered Ethereum tx.
type EthResult struct {
	Code    uint32
	Log     string
	GasUsed uint64
	VmError string
	Ret     []byte
	Hash    string
	Failed  bool // Code != 0 or VmError != ""
}

func DecodeEthResult(res abci.ResponseDeliverTx) EthResult {
	out := EthResult{Code: res.Code, Log: res.Log, GasUsed: uint64(res.GasUsed)}
	if res.Code != 0 {
		out.Failed = true
		return out
	}
	var txData sdk.TxMsgData
	if err := proto.Unmarshal(res.Data, &txData); err != nil || len(txData.MsgResponses) == 0 {
		out.Failed = true
		out.Log = "undecodable response"
		return out
	}
	var r evmtypes.MsgEthereumTxResponse
	if err := proto.Unmarshal(txData.MsgResponses[0].Value, &r); err != nil {
		out.Failed = true
		out.Log = "undecodable eth response"
		return out
	}
	out.VmError = r.VmError
	out.Ret = r.Ret
	out.Hash = r.Hash
	out.GasUsed = r.GasUsed
	out.Failed = r.VmError != ""
	return out
}

// PrecompileSuccess decodes the leading bool of the return data of a precompile method.
func PrecompileSuccess(pc, method string, r EthResult) bool {
	if r.Failed {
		return false
	}
	vals, err := ABI(pc).Unpack(method, r.Ret)
	if err != nil || len(vals) == 0 {
		return false
	}
	b, ok := vals[0].(bool)
	return ok && b
}
