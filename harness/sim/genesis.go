package sim

import (
	"crypto/sha256"
	"encoding/json"
	"fmt"
	"strings"
	"time"

	sdkmath "cosmossdk.io/math"
	"github.com/cosmos/cosmos-sdk/crypto/keys/ed25519"
	sdk "github.com/cosmos/cosmos-sdk/types"
	authtypes "github.com/cosmos/cosmos-sdk/x/auth/types"
	banktypes "github.com/cosmos/cosmos-sdk/x/bank/types"
	slashingtypes "github.com/cosmos/cosmos-sdk/x/slashing/types"
	stakingtypes "github.com/cosmos/cosmos-sdk/x/staking/types"
	"github.com/ethereum/go-ethereum/common"
	"github.com/ethereum/go-ethereum/common/hexutil"
	"github.com/evmos/evmos/v16/crypto/ethsecp256k1"
	evmostypes "github.com/evmos/evmos/v16/types"
	evmtypes "github.com/evmos/evmos/v16/x/evm/types"

	exocoreapp "github.com/ExocoreNetwork/exocore/app"
	keytypes "github.com/ExocoreNetwork/exocore/types/keys"
	"github.com/ExocoreNetwork/exocore/utils"
	assetstypes "github.com/ExocoreNetwork/exocore/x/assets/types"
	avstypes "github.com/ExocoreNetwork/exocore/x/avs/types"
	delegationtypes "github.com/ExocoreNetwork/exocore/x/delegation/types"
	dogfoodtypes "github.com/ExocoreNetwork/exocore/x/dogfood/types"
	epochstypes "github.com/ExocoreNetwork/exocore/x/epochs/types"
	exominttypes "github.com/ExocoreNetwork/exocore/x/exomint/types"
	distrtypes "github.com/ExocoreNetwork/exocore/x/feedistribution/types"
	operatortypes "github.com/ExocoreNetwork/exocore/x/operator/types"
	oracletypes "github.com/ExocoreNetwork/exocore/x/oracle/types"
)

// Account is an Exocore account (eth_secp256k1).
type Account struct {
	Name string
	Priv *ethsecp256k1.PrivKey
	Acc  sdk.AccAddress
	Eth  common.Address
}

func NewAccount(name string) *Account {
	h := sha256.Sum256([]byte("verif-acct-" + name))
	priv := &ethsecp256k1.PrivKey{Key: h[:]}
	addr := priv.PubKey().Address().Bytes()
	return &Account{Name: name, Priv: priv, Acc: sdk.AccAddress(addr), Eth: common.BytesToAddress(addr)}
}

// ConsKey is an ed25519 consensus key.
type ConsKey struct {
	Name string
	Priv *ed25519.PrivKey
	W    keytypes.WrappedConsKey
}

func NewConsKey(name string) *ConsKey {
	priv := ed25519.GenPrivKeyFromSecret([]byte("verif-cons-" + name))
	w := keytypes.NewWrappedConsKeyFromSdkKey(priv.PubKey())
	return &ConsKey{Name: name, Priv: priv, W: w}
}

func (k *ConsKey) ConsAddr() sdk.ConsAddress { return k.W.ToConsAddr() }

// AssetCfg describes a restaking asset in genesis.
type AssetCfg struct {
	Address   string // 0x + 40 hex (lower case is applied)
	LzChainID uint64
	Decimals  uint32
	// oracle token
	HasOracle   bool
	Price       string // initial price
	PriceDec    int32
	FeederStart uint64 // StartBaseBlock
	Interval    uint64
	EndBlock    uint64
	NST         bool
}

func (a AssetCfg) ID() string {
	_, id := assetstypes.GetStakerIDAndAssetIDFromStr(a.LzChainID, "", a.Address)
	return id
}

// OperatorCfg is a genesis operator with self stake in asset 0 (becomes a validator if Cons != nil).
type OperatorCfg struct {
	Acct       *Account
	Cons       *ConsKey
	SelfStake  int64 // whole units of asset[0]; USD value = SelfStake * price(asset0)
	Commission sdk.Dec
}

type Config struct {
	ChainID      string
	GenesisTime  time.Time
	ClientChains []assetstypes.ClientChainInfo
	Assets       []AssetCfg
	Operators    []OperatorCfg
	Accounts     []*Account // funded accounts (first = gateway)
	Fund         sdkmath.Int
	Gateway      *Account

	Dogfood dogfoodtypes.Params
	Epochs  []epochstypes.EpochInfo
	Oracle  *oracletypes.Params // nil => built from assets
	// oracle knobs used when Oracle == nil
	OracleMaxNonce int32
	// OracleFeederOrder, when set, is the order (indices into the oracle-priced assets, i.e. token id - 1) in which the
	// token feeders are listed: feeder id k+1 then serves token OracleFeederOrder[k]+1.
	OracleFeederOrder []int
	Mint              exominttypes.Params
	Slashing          slashingtypes.Params
	// genesis-loaded undelegation records (C03 variant); must be consistent with the other fields
	Undelegations []delegationtypes.UndelegationRecord
	CommunityTax  *sdk.Dec
	// BlockMaxGas != 0 replaces the consensus parameter block.max_gas (default -1: no limit)
	BlockMaxGas int64
}

// Genesis carries the built genesis state and the handles needed later.
type Genesis struct {
	Cfg      Config
	State    map[string]json.RawMessage
	AssetIDs []string
	AVSAddr  string // dogfood avs address (hex lower)
}

func DefaultClientChains() []assetstypes.ClientChainInfo {
	return []assetstypes.ClientChainInfo{
		{Name: "ethereum", MetaInfo: "ethereum blockchain", ChainId: 1, FinalizationBlocks: 10, LayerZeroChainID: 101, AddressLength: 20},
		{Name: "other", MetaInfo: "other blockchain", ChainId: 2, FinalizationBlocks: 10, LayerZeroChainID: 1616, AddressLength: 20},
	}
}

const Asset0Addr = "0xdac17f958d2ee523a2206206994597c13d831ec7"

// DefaultConfig: nOps genesis validators with self stake, assets: USDT(6 dec) on 0x65, a second LST
// with other decimals on 0x650, an NST asset on 0x65.
func DefaultConfig(nOps int, stakes []int64) Config {
	cfg := Config{
		ChainID:      utils.DefaultChainID,
		GenesisTime:  time.Date(2025, 1, 1, 0, 0, 0, 0, time.UTC),
		ClientChains: DefaultClientChains(),
		Fund:         sdkmath.NewIntWithDecimal(1, 24),
	}
	cfg.Assets = []AssetCfg{
		{Address: Asset0Addr, LzChainID: 101, Decimals: 6, HasOracle: true, Price: "1", PriceDec: 0, FeederStart: 10000000, Interval: 10},
		{Address: "0xa0b86991c6218b36c1d19d4a2e9eb0ce3606eb48", LzChainID: 1616, Decimals: 18, HasOracle: true, Price: "250000", PriceDec: 2, FeederStart: 10000000, Interval: 10},
		{Address: "0xeeeeeeeeeeeeeeeeeeeeeeeeeeeeeeeeeeeeeeee", LzChainID: 101, Decimals: 18, HasOracle: true, Price: "3000", PriceDec: 0, FeederStart: 10000000, Interval: 10, NST: true},
	}
	for i := 0; i < nOps; i++ {
		st := int64(100)
		if i < len(stakes) {
			st = stakes[i]
		}
		cfg.Operators = append(cfg.Operators, OperatorCfg{
			Acct: NewAccount(fmt.Sprintf("op%d", i)), Cons: NewConsKey(fmt.Sprintf("op%d-k0", i)),
			SelfStake: st, Commission: sdk.ZeroDec(),
		})
	}
	cfg.Gateway = NewAccount("gateway")
	cfg.Accounts = []*Account{cfg.Gateway}
	for i := 0; i < 6; i++ {
		cfg.Accounts = append(cfg.Accounts, NewAccount(fmt.Sprintf("user%d", i)))
	}
	cfg.Dogfood = dogfoodtypes.DefaultParams()
	cfg.Dogfood.EpochIdentifier = epochstypes.MinuteEpochID
	cfg.Dogfood.EpochsUntilUnbonded = 2
	cfg.Dogfood.MinSelfDelegation = sdkmath.NewInt(0)
	cfg.Epochs = epochstypes.DefaultGenesis().Epochs
	cfg.OracleMaxNonce = 3
	cfg.Mint = exominttypes.DefaultParams()
	cfg.Mint.EpochIdentifier = epochstypes.MinuteEpochID
	cfg.Slashing = slashingtypes.DefaultParams()
	cfg.Slashing.SignedBlocksWindow = 8
	cfg.Slashing.MinSignedPerWindow = sdk.NewDecWithPrec(5, 1)
	cfg.Slashing.DowntimeJailDuration = 30 * time.Second
	return cfg
}

// BuildOracleParams builds oracle params with one token + feeder per asset that HasOracle.
func BuildOracleParams(cfg Config) (oracletypes.Params, []oracletypes.Prices) {
	p := oracletypes.DefaultParams()
	p.Tokens = []*oracletypes.Token{{}}
	p.TokenFeeders = []*oracletypes.TokenFeeder{{}}
	if cfg.OracleMaxNonce > 0 {
		p.MaxNonce = cfg.OracleMaxNonce
	}
	var prices []oracletypes.Prices
	var feeders []*oracletypes.TokenFeeder
	for i, a := range cfg.Assets {
		if !a.HasOracle {
			continue
		}
		id := uint64(len(p.Tokens))
		p.Tokens = append(p.Tokens, &oracletypes.Token{
			Name: fmt.Sprintf("TK%d", i), ChainID: 1, ContractAddress: a.Address,
			Decimal: a.PriceDec, Active: true, AssetID: a.ID(),
		})
		iv := a.Interval
		if iv == 0 {
			iv = 10
		}
		feeders = append(feeders, &oracletypes.TokenFeeder{
			TokenID: id, RuleID: 1, StartRoundID: 1, StartBaseBlock: a.FeederStart, Interval: iv, EndBlock: a.EndBlock,
		})
		if a.Price != "" {
			prices = append(prices, oracletypes.Prices{
				TokenID: id, NextRoundID: 2,
				PriceList: []*oracletypes.PriceTimeRound{{Price: a.Price, Decimal: a.PriceDec, RoundID: 1}},
			})
		}
	}
	if len(cfg.OracleFeederOrder) == len(feeders) {
		for _, k := range cfg.OracleFeederOrder {
			p.TokenFeeders = append(p.TokenFeeders, feeders[k])
		}
	} else {
		p.TokenFeeders = append(p.TokenFeeders, feeders...)
	}
	return p, prices
}

func StakerID(lz uint64, addr []byte) string {
	id, _ := assetstypes.GetStakerIDAndAssetID(lz, addr, nil)
	return id
}

// BuildGenesis builds the app state for cfg.
func BuildGenesis(app *exocoreapp.ExocoreApp, cfg Config) (*Genesis, error) {
	cdc := app.AppCodec()
	gs := exocoreapp.NewDefaultGenesisState(cdc)
	g := &Genesis{Cfg: cfg, State: gs}
	chainIDNoRev := avstypes.ChainIDWithoutRevision(cfg.ChainID)
	avsAddr := avstypes.GenerateAVSAddr(chainIDNoRev)
	g.AVSAddr = strings.ToLower(avsAddr)

	// auth + bank
	var genAccs []authtypes.GenesisAccount
	var balances []banktypes.Balance
	total := sdk.NewCoins()
	seen := map[string]bool{}
	addAcct := func(a *Account) {
		if seen[a.Acc.String()] {
			return
		}
		seen[a.Acc.String()] = true
		base := authtypes.NewBaseAccount(a.Acc, nil, 0, 0)
		genAccs = append(genAccs, &evmostypes.EthAccount{BaseAccount: base, CodeHash: common.BytesToHash(evmtypes.EmptyCodeHash).Hex()})
		coins := sdk.NewCoins(sdk.NewCoin(utils.BaseDenom, cfg.Fund))
		balances = append(balances, banktypes.Balance{Address: a.Acc.String(), Coins: coins})
		total = total.Add(coins...)
	}
	for _, a := range cfg.Accounts {
		addAcct(a)
	}
	for _, o := range cfg.Operators {
		addAcct(o.Acct)
	}
	gs[authtypes.ModuleName] = cdc.MustMarshalJSON(authtypes.NewGenesisState(authtypes.DefaultParams(), genAccs))
	gs[banktypes.ModuleName] = cdc.MustMarshalJSON(banktypes.NewGenesisState(banktypes.DefaultParams(), balances, total, []banktypes.Metadata{}, []banktypes.SendEnabled{}))

	// assets
	asset0 := cfg.Assets[0]
	asset0ID := asset0.ID()
	unit := sdkmath.NewIntWithDecimal(1, int(asset0.Decimals))
	var tokens []assetstypes.StakingAssetInfo
	totalStake := sdkmath.ZeroInt()
	var deposits []assetstypes.DepositsByStaker
	var opAssets []assetstypes.AssetsByOperator
	var opInfos []operatortypes.OperatorDetail
	var consKeys []operatortypes.OperatorConsKeyRecord
	var optStates []operatortypes.OptedState
	var opUSD []operatortypes.OperatorUSDValue
	var delStates []delegationtypes.DelegationStates
	var assocs []delegationtypes.StakerToOperator
	var stakersByOp []delegationtypes.StakersByOperator
	var vals []dogfoodtypes.GenesisValidator
	avsTotal := sdkmath.LegacyZeroDec()
	totalPower := int64(0)
	price0, okp := sdkmath.NewIntFromString(asset0.Price)
	if !okp {
		price0 = sdkmath.OneInt() // no genesis price: the default price (1, 0 decimals) applies
	}
	for _, o := range cfg.Operators {
		opInfos = append(opInfos, operatortypes.OperatorDetail{
			OperatorAddress: o.Acct.Acc.String(),
			OperatorInfo: operatortypes.OperatorInfo{
				EarningsAddr: o.Acct.Acc.String(), OperatorMetaInfo: o.Acct.Name,
				Commission: stakingtypes.NewCommission(o.Commission, sdk.OneDec(), sdk.OneDec()),
			},
		})
		if o.SelfStake <= 0 {
			continue
		}
		amt := unit.MulRaw(o.SelfStake)
		totalStake = totalStake.Add(amt)
		stakerID := StakerID(asset0.LzChainID, o.Acct.Eth.Bytes())
		deposits = append(deposits, assetstypes.DepositsByStaker{
			StakerID: stakerID,
			Deposits: []assetstypes.DepositByAsset{{AssetID: asset0ID, Info: assetstypes.StakerAssetInfo{
				TotalDepositAmount: amt, WithdrawableAmount: sdkmath.ZeroInt(), PendingUndelegationAmount: sdkmath.ZeroInt(),
			}}},
		})
		opAssets = append(opAssets, assetstypes.AssetsByOperator{
			Operator: o.Acct.Acc.String(),
			AssetsState: []assetstypes.AssetByID{{AssetID: asset0ID, Info: assetstypes.OperatorAssetInfo{
				TotalAmount: amt, PendingUndelegationAmount: sdkmath.ZeroInt(),
				TotalShare: sdkmath.LegacyNewDecFromBigInt(amt.BigInt()), OperatorShare: sdkmath.LegacyNewDecFromBigInt(amt.BigInt()),
			}}},
		})
		delStates = append(delStates, delegationtypes.DelegationStates{
			Key:    string(assetstypes.GetJoinedStoreKey(stakerID, asset0ID, o.Acct.Acc.String())),
			States: delegationtypes.DelegationAmounts{WaitUndelegationAmount: sdkmath.ZeroInt(), UndelegatableShare: sdkmath.LegacyNewDecFromBigInt(amt.BigInt())},
		})
		assocs = append(assocs, delegationtypes.StakerToOperator{Operator: o.Acct.Acc.String(), StakerID: stakerID})
		stakersByOp = append(stakersByOp, delegationtypes.StakersByOperator{
			Key: string(assetstypes.GetJoinedStoreKey(o.Acct.Acc.String(), asset0ID)), Stakers: []string{stakerID},
		})
		if o.Cons != nil {
			usd := sdkmath.LegacyNewDec(o.SelfStake).MulInt(price0)
			for i := int32(0); i < asset0.PriceDec; i++ {
				usd = usd.QuoInt64(10)
			}
			consKeys = append(consKeys, operatortypes.OperatorConsKeyRecord{
				OperatorAddress: o.Acct.Acc.String(),
				Chains:          []operatortypes.ChainDetails{{ChainID: chainIDNoRev, ConsensusKey: o.Cons.W.ToHex()}},
			})
			optStates = append(optStates, operatortypes.OptedState{
				Key:     string(assetstypes.GetJoinedStoreKey(o.Acct.Acc.String(), avsAddr)),
				OptInfo: operatortypes.OptedInfo{OptedInHeight: 1, OptedOutHeight: operatortypes.DefaultOptedOutHeight},
			})
			opUSD = append(opUSD, operatortypes.OperatorUSDValue{
				Key:           string(assetstypes.GetJoinedStoreKey(avsAddr, o.Acct.Acc.String())),
				OptedUSDValue: operatortypes.OperatorOptedUSDValue{SelfUSDValue: usd, TotalUSDValue: usd, ActiveUSDValue: usd},
			})
			avsTotal = avsTotal.Add(usd)
			pw := usd.TruncateInt64()
			vals = append(vals, dogfoodtypes.GenesisValidator{PublicKey: o.Cons.W.ToHex(), Power: pw})
			totalPower += pw
		}
	}
	for i, a := range cfg.Assets {
		info := assetstypes.StakingAssetInfo{
			AssetBasicInfo: assetstypes.AssetInfo{
				Name: fmt.Sprintf("Asset%d", i), Symbol: fmt.Sprintf("A%d", i), Address: a.Address,
				Decimals: a.Decimals, LayerZeroChainID: a.LzChainID, MetaInfo: "asset",
			},
			StakingTotalAmount: sdkmath.ZeroInt(),
		}
		if i == 0 {
			info.StakingTotalAmount = totalStake
		}
		tokens = append(tokens, info)
		g.AssetIDs = append(g.AssetIDs, a.ID())
	}
	ap := assetstypes.DefaultParams()
	if cfg.Gateway != nil {
		ap.ExocoreLzAppAddress = cfg.Gateway.Eth.String()
	}
	gs[assetstypes.ModuleName] = cdc.MustMarshalJSON(assetstypes.NewGenesis(ap, cfg.ClientChains, tokens, deposits, opAssets))

	var avsUSD []operatortypes.AVSUSDValue
	avsUSD = append(avsUSD, operatortypes.AVSUSDValue{AVSAddr: avsAddr, Value: operatortypes.DecValueField{Amount: avsTotal}})
	gs[operatortypes.ModuleName] = cdc.MustMarshalJSON(operatortypes.NewGenesisState(opInfos, consKeys, optStates, opUSD, avsUSD, nil, nil, nil))
	gs[delegationtypes.ModuleName] = cdc.MustMarshalJSON(delegationtypes.NewGenesis(assocs, delStates, stakersByOp, cfg.Undelegations))

	// oracle
	var op oracletypes.Params
	var prices []oracletypes.Prices
	if cfg.Oracle != nil {
		op = *cfg.Oracle
	} else {
		op, prices = BuildOracleParams(cfg)
	}
	og := oracletypes.NewGenesisState(op)
	og.PricesList = prices
	gs[oracletypes.ModuleName] = cdc.MustMarshalJSON(og)

	// dogfood
	dp := cfg.Dogfood
	if len(dp.AssetIDs) == 0 || dp.AssetIDs[0] == dogfoodtypes.DefaultAssetIDs {
		dp.AssetIDs = []string{asset0ID}
	}
	gs[dogfoodtypes.ModuleName] = cdc.MustMarshalJSON(dogfoodtypes.NewGenesis(dp, vals,
		[]dogfoodtypes.EpochToOperatorAddrs{}, []dogfoodtypes.EpochToConsensusAddrs{}, []dogfoodtypes.EpochToUndelegationRecordKeys{},
		sdkmath.NewInt(totalPower)))

	gs[epochstypes.ModuleName] = cdc.MustMarshalJSON(epochstypes.NewGenesisState(cfg.Epochs))
	gs[exominttypes.ModuleName] = cdc.MustMarshalJSON(&exominttypes.GenesisState{Params: cfg.Mint})
	dg := distrtypes.NewGenesisState(distrtypes.DefaultParams())
	if cfg.CommunityTax != nil {
		dg.Params.CommunityTax = *cfg.CommunityTax
	}
	gs[distrtypes.ModuleName] = cdc.MustMarshalJSON(dg)

	sg := slashingtypes.DefaultGenesisState()
	sg.Params = cfg.Slashing
	gs[slashingtypes.ModuleName] = cdc.MustMarshalJSON(sg)
	return g, nil
}

func HexAddr(b []byte) string { return hexutil.Encode(b) }
