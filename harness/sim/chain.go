// Package sim drives a full in-process ExocoreApp block by block, the way CometBFT would,
// and keeps the consensus-side view (validator set, votes, evidence) that the app is fed.
package sim

import (
	"encoding/json"
	"fmt"
	"os"
	"runtime/debug"
	"sort"
	"time"

	dbm "github.com/cometbft/cometbft-db"
	abci "github.com/cometbft/cometbft/abci/types"
	"github.com/cometbft/cometbft/crypto/tmhash"
	"github.com/cometbft/cometbft/libs/log"
	tmproto "github.com/cometbft/cometbft/proto/tendermint/types"
	tmversion "github.com/cometbft/cometbft/proto/tendermint/version"
	tmtypes "github.com/cometbft/cometbft/types"
	"github.com/cometbft/cometbft/version"
	"github.com/cosmos/cosmos-sdk/baseapp"
	"github.com/cosmos/cosmos-sdk/client"
	pruningtypes "github.com/cosmos/cosmos-sdk/store/pruning/types"
	simtestutil "github.com/cosmos/cosmos-sdk/testutil/sims"
	sdk "github.com/cosmos/cosmos-sdk/types"
	"github.com/evmos/evmos/v16/encoding"

	exocoreapp "github.com/ExocoreNetwork/exocore/app"
	"github.com/ExocoreNetwork/exocore/x/oracle"
)

// PanicInfo describes a panic that escaped an ABCI call.
type PanicInfo struct {
	Phase string `json:"phase"`
	Value string `json:"value"`
	Stack string `json:"stack"`
}

// Chain is one application instance plus the consensus-side model.
type Chain struct {
	App     *exocoreapp.ExocoreApp
	DB      dbm.DB
	ChainID string
	TxCfg   client.TxConfig
	Gen     *Genesis

	Header  tmproto.Header // header of the block in progress (or last finished)
	InBlock bool
	// consensus-side model
	ValSet *tmtypes.ValidatorSet // set that signs the *current* block (H)
	// NextVals is what will sign H+1 (updates returned at H-1... see ApplyUpdates)
	pendingUpdates [][]abci.ValidatorUpdate
	// Absent holds consensus addresses (hex) that do not sign the next blocks.
	Absent map[string]bool
	// Evidence to be delivered in the next BeginBlock.
	NextEvidence []abci.Misbehavior

	LastEndBlock abci.ResponseEndBlock
	LastAppHash  []byte
	Panics       []PanicInfo
	// Watch lists accounts whose bank balance is part of every snapshot.
	Watch []sdk.AccAddress
	// ValSetErr is set when CometBFT's own validator-set update validation refuses an update list.
	ValSetErr error
	// VoteSets records, per height, the validator set used for LastCommitInfo.
	prevVals *tmtypes.ValidatorSet
}

// NewApp builds an application over db. Pruning: nothing (so that restarts can load any version).
func NewApp(db dbm.DB, chainID string) *exocoreapp.ExocoreApp {
	// the oracle module keeps process-level state; every new app instance starts like a fresh process
	oracle.VerifResetProcessState()
	cfg := encoding.MakeConfig(exocoreapp.ModuleBasics)
	pr := pruningtypes.NewPruningOptionsFromString(pruningtypes.PruningOptionNothing)
	var logger log.Logger = log.NewNopLogger()
	if os.Getenv("VERIF_LOG") != "" {
		logger = log.NewTMLogger(log.NewSyncWriter(os.Stdout))
	}
	return exocoreapp.NewExocoreApp(
		logger, db, nil, true, map[int64]bool{},
		exocoreapp.DefaultNodeHome, 5, cfg,
		simtestutil.NewAppOptionsWithFlagHome(exocoreapp.DefaultNodeHome),
		baseapp.SetChainID(chainID), baseapp.SetPruning(pr),
	)
}

// NewChain creates the app, runs InitChain with the genesis built from cfg.
func NewChain(cfg Config) (*Chain, error) {
	return NewChainOnDB(cfg, dbm.NewMemDB())
}

func NewChainOnDB(cfg Config, db dbm.DB) (c *Chain, err error) {
	c = &Chain{DB: db, ChainID: cfg.ChainID, Absent: map[string]bool{}}
	c.App = NewApp(db, cfg.ChainID)
	c.TxCfg = encoding.MakeConfig(exocoreapp.ModuleBasics).TxConfig
	gen, err := BuildGenesis(c.App, cfg)
	if err != nil {
		return nil, err
	}
	c.Gen = gen
	stateBytes, err := json.MarshalIndent(gen.State, "", " ")
	if err != nil {
		return nil, err
	}
	defer func() {
		if r := recover(); r != nil {
			err = fmt.Errorf("InitChain panic: %v\n%s", r, debug.Stack())
		}
	}()
	cp := *exocoreapp.DefaultConsensusParams
	if cfg.BlockMaxGas != 0 {
		bp := *cp.Block
		bp.MaxGas = cfg.BlockMaxGas
		cp.Block = &bp
	}
	res := c.App.InitChain(abci.RequestInitChain{
		Time:            cfg.GenesisTime,
		ChainId:         cfg.ChainID,
		Validators:      []abci.ValidatorUpdate{},
		ConsensusParams: &cp,
		AppStateBytes:   stateBytes,
		InitialHeight:   1,
	})
	vals, err := tmtypes.PB2TM.ValidatorUpdates(res.Validators)
	if err != nil {
		return nil, err
	}
	c.ValSet = tmtypes.NewValidatorSet(vals)
	c.prevVals = c.ValSet.Copy()
	c.Header = tmproto.Header{
		Version: tmversion.Consensus{Block: version.BlockProtocol},
		ChainID: cfg.ChainID,
		Height:  0,
		Time:    cfg.GenesisTime,
	}
	return c, nil
}

// InitFromGenesisDoc initialises a fresh app from an exported app state.
func NewChainFromState(chainID string, appState json.RawMessage, genTime time.Time, initialHeight int64, gen *Genesis) (c *Chain, err error) {
	c = &Chain{DB: dbm.NewMemDB(), ChainID: chainID, Absent: map[string]bool{}, Gen: gen}
	c.App = NewApp(c.DB, chainID)
	c.TxCfg = encoding.MakeConfig(exocoreapp.ModuleBasics).TxConfig
	defer func() {
		if r := recover(); r != nil {
			err = fmt.Errorf("InitChain panic: %v\n%s", r, debug.Stack())
		}
	}()
	res := c.App.InitChain(abci.RequestInitChain{
		Time:            genTime,
		ChainId:         chainID,
		Validators:      []abci.ValidatorUpdate{},
		ConsensusParams: exocoreapp.DefaultConsensusParams,
		AppStateBytes:   appState,
		InitialHeight:   initialHeight,
	})
	vals, err := tmtypes.PB2TM.ValidatorUpdates(res.Validators)
	if err != nil {
		return nil, err
	}
	c.ValSet = tmtypes.NewValidatorSet(vals)
	c.prevVals = c.ValSet.Copy()
	c.Header = tmproto.Header{
		Version: tmversion.Consensus{Block: version.BlockProtocol},
		ChainID: chainID,
		Height:  initialHeight - 1,
		Time:    genTime,
	}
	return c, nil
}

func (c *Chain) guard(phase string, f func()) (ok bool) {
	defer func() {
		if r := recover(); r != nil {
			c.Panics = append(c.Panics, PanicInfo{Phase: phase, Value: fmt.Sprint(r), Stack: string(debug.Stack())})
			if os.Getenv("VERIF_DEBUG_STACK") != "" {
				fmt.Fprintf(os.Stderr, "PANIC in %s at height %d: %v\n%s\n", phase, c.Header.Height, r, debug.Stack())
			}
			ok = false
		}
	}()
	f()
	return true
}

// BeginBlock starts block Height+1 at Time+dt. Votes: every validator of the set that signed the
// previous block, minus c.Absent. Returns false if the call panicked.
func (c *Chain) BeginBlock(dt time.Duration) bool {
	if c.InBlock {
		panic("sim: BeginBlock inside a block")
	}
	h := c.Header
	h.Height++
	h.Time = h.Time.Add(dt)
	h.AppHash = c.LastAppHash
	h.ValidatorsHash = c.ValSet.Hash()
	h.NextValidatorsHash = c.ValSet.Hash()
	prop := c.ValSet.GetProposer()
	if prop != nil {
		h.ProposerAddress = prop.Address
	}
	h.LastBlockId = tmproto.BlockID{Hash: tmhash.Sum([]byte(fmt.Sprintf("blk-%d", h.Height-1)))}
	c.Header = h
	// last commit info: validators that signed block H-1 = prevVals
	votes := make([]abci.VoteInfo, 0, c.prevVals.Size())
	if h.Height > 1 {
		for _, v := range c.prevVals.Validators {
			addrHex := fmt.Sprintf("%X", v.Address.Bytes())
			votes = append(votes, abci.VoteInfo{
				Validator:       abci.Validator{Address: v.Address, Power: v.VotingPower},
				SignedLastBlock: !c.Absent[addrHex],
			})
		}
	}
	ev := c.NextEvidence
	c.NextEvidence = nil
	c.InBlock = true
	return c.guard("BeginBlock", func() {
		c.App.BeginBlock(abci.RequestBeginBlock{
			Hash:                tmhash.Sum([]byte(fmt.Sprintf("blk-%d", h.Height))),
			Header:              h,
			LastCommitInfo:      abci.CommitInfo{Votes: votes},
			ByzantineValidators: ev,
		})
	})
}

// Ctx returns a context on the deliver state of the block in progress.
func (c *Chain) Ctx() sdk.Context {
	return c.App.BaseApp.NewContext(false, c.Header)
}

// CheckCtx returns a context on the check state.
func (c *Chain) CheckCtx() sdk.Context {
	return c.App.BaseApp.NewContext(true, c.Header)
}

func (c *Chain) DeliverTx(bz []byte) (res abci.ResponseDeliverTx, ok bool) {
	if queryNoise {
		c.serveDryRun(bz)
	}
	ok = c.guard("DeliverTx", func() {
		res = c.App.BaseApp.DeliverTx(abci.RequestDeliverTx{Tx: bz})
	})
	return
}

func (c *Chain) CheckTx(bz []byte, recheck bool) (res abci.ResponseCheckTx, ok bool) {
	t := abci.CheckTxType_New
	if recheck {
		t = abci.CheckTxType_Recheck
	}
	ok = c.guard("CheckTx", func() {
		res = c.App.BaseApp.CheckTx(abci.RequestCheckTx{Tx: bz, Type: t})
	})
	return
}

// EndBlock ends the block and applies the returned updates to the consensus-side model with
// CometBFT's own validation. The set that results becomes active two heights later in CometBFT;
// for the purposes of vote info we follow the SDK test helpers and apply it for H+1's commit info
// of H+2 (i.e. updates at H take effect at H+2).
func (c *Chain) EndBlock() (res abci.ResponseEndBlock, ok bool) {
	if !c.InBlock {
		panic("sim: EndBlock outside a block")
	}
	ok = c.guard("EndBlock", func() {
		res = c.App.EndBlock(abci.RequestEndBlock{Height: c.Header.Height})
	})
	c.LastEndBlock = res
	return
}

// Commit commits the block and advances the consensus-side validator sets.
func (c *Chain) Commit() (ok bool) {
	var rc abci.ResponseCommit
	ok = c.guard("Commit", func() {
		rc = c.App.Commit()
	})
	if ok {
		c.LastAppHash = rc.Data
	}
	c.InBlock = false
	// consensus side: block H was signed by ValSet; updates from H apply to H+2.
	c.prevVals = c.ValSet.Copy()
	c.pendingUpdates = append(c.pendingUpdates, c.LastEndBlock.ValidatorUpdates)
	if len(c.pendingUpdates) > 1 {
		upd := c.pendingUpdates[0]
		c.pendingUpdates = c.pendingUpdates[1:]
		if len(upd) > 0 {
			tm, err := tmtypes.PB2TM.ValidatorUpdates(upd)
			if err == nil {
				nv := c.ValSet.Copy()
				err = nv.UpdateWithChangeSet(tm)
				if err == nil {
					c.ValSet = nv
				}
			}
			if err != nil && c.ValSetErr == nil {
				desc := "set:"
				for _, v := range c.ValSet.Validators {
					desc += fmt.Sprintf(" %X=%d", v.Address.Bytes()[:4], v.VotingPower)
				}
				desc += " updates:"
				for _, v := range tm {
					desc += fmt.Sprintf(" %X=%d", v.Address.Bytes()[:4], v.VotingPower)
				}
				c.ValSetErr = fmt.Errorf("height %d: %w [%s]", c.Header.Height, err, desc)
			}
		}
	}
	if c.ValSet.Size() > 0 {
		c.ValSet.IncrementProposerPriority(1)
	}
	return
}

// FinishBlock = EndBlock + Commit.
func (c *Chain) FinishBlock() (abci.ResponseEndBlock, bool) {
	r, ok := c.EndBlock()
	ok2 := c.Commit()
	return r, ok && ok2
}

// EmptyBlocks runs n empty blocks with spacing dt.
func (c *Chain) EmptyBlocks(n int, dt time.Duration) bool {
	for i := 0; i < n; i++ {
		if !c.BeginBlock(dt) {
			return false
		}
		if _, ok := c.FinishBlock(); !ok {
			return false
		}
	}
	return true
}

// Height of the block in progress / last block.
func (c *Chain) Height() int64 { return c.Header.Height }

// SortedKeys helper.
func SortedKeys[V any](m map[string]V) []string {
	out := make([]string, 0, len(m))
	for k := range m {
		out = append(out, k)
	}
	sort.Strings(out)
	return out
}

// Restart replaces the application instance by a fresh one over the same database, as a node restart does:
// package-level oracle state is reset (hook H2, inside NewApp), the store is loaded at the last committed version.
// Must be called between blocks (after Commit).
func (c *Chain) Restart() (err error) {
	if c.InBlock {
		return fmt.Errorf("restart inside a block")
	}
	defer func() {
		if r := recover(); r != nil {
			err = fmt.Errorf("restart panic: %v\n%s", r, debug.Stack())
		}
	}()
	c.App = NewApp(c.DB, c.ChainID)
	return nil
}
