package sim

import (
	"bytes"
	"crypto/sha256"
	"encoding/hex"
	"fmt"
	"sort"
	"strings"

	sdkmath "cosmossdk.io/math"
	sdk "github.com/cosmos/cosmos-sdk/types"
	authtypes "github.com/cosmos/cosmos-sdk/x/auth/types"
	"github.com/cosmos/gogoproto/proto"

	"github.com/ExocoreNetwork/exocore/utils"
	assetstypes "github.com/ExocoreNetwork/exocore/x/assets/types"
	avstypes "github.com/ExocoreNetwork/exocore/x/avs/types"
	delegationtypes "github.com/ExocoreNetwork/exocore/x/delegation/types"
	epochstypes "github.com/ExocoreNetwork/exocore/x/epochs/types"
	oraclekeeper "github.com/ExocoreNetwork/exocore/x/oracle/keeper"
)

// RestakingStores are the module stores whose bytes the atomicity / export monitors compare.
var RestakingStores = []string{"assets", "delegation", "operator", "dogfood", "avs", "oracle", "reward", "exoslash"}

// Raw is store name -> key (raw bytes as string) -> value.
type Raw map[string]map[string][]byte

// DumpStores reads every key of the named stores from ctx.
func (c *Chain) DumpStores(ctx sdk.Context, names []string) Raw {
	out := Raw{}
	for _, n := range names {
		k := c.App.GetKey(n)
		if k == nil {
			continue
		}
		m := map[string][]byte{}
		it := ctx.KVStore(k).Iterator(nil, nil)
		for ; it.Valid(); it.Next() {
			v := make([]byte, len(it.Value()))
			copy(v, it.Value())
			m[string(it.Key())] = v
		}
		it.Close()
		out[n] = m
	}
	return out
}

// Diff describes one differing key.
type Diff struct {
	Store  string `json:"store"`
	Key    string `json:"key"` // printable
	Prefix string `json:"prefix"`
	Before string `json:"before"`
	After  string `json:"after"`
}

func printable(k string) string {
	ok := true
	for i := 1; i < len(k); i++ {
		if k[i] < 0x20 || k[i] > 0x7e {
			ok = false
			break
		}
	}
	if ok && len(k) > 0 {
		return fmt.Sprintf("%02x|%s", k[0], k[1:])
	}
	return hex.EncodeToString([]byte(k))
}

func short(b []byte) string {
	if b == nil {
		return "<absent>"
	}
	s := hex.EncodeToString(b)
	if len(s) > 160 {
		s = s[:160] + "…"
	}
	return s
}

// DiffRaw lists differences between two dumps (sorted, capped).
func DiffRaw(a, b Raw, max int) []Diff {
	var out []Diff
	names := map[string]bool{}
	for n := range a {
		names[n] = true
	}
	for n := range b {
		names[n] = true
	}
	var ns []string
	for n := range names {
		ns = append(ns, n)
	}
	sort.Strings(ns)
	for _, n := range ns {
		ma, mb := a[n], b[n]
		keys := map[string]bool{}
		for k := range ma {
			keys[k] = true
		}
		for k := range mb {
			keys[k] = true
		}
		var ks []string
		for k := range keys {
			ks = append(ks, k)
		}
		sort.Strings(ks)
		for _, k := range ks {
			va, oka := ma[k]
			vb, okb := mb[k]
			if oka && okb && bytes.Equal(va, vb) {
				continue
			}
			if !oka {
				va = nil
			}
			if !okb {
				vb = nil
			}
			pf := ""
			if len(k) > 0 {
				pf = fmt.Sprintf("%02x", k[0])
			}
			out = append(out, Diff{Store: n, Key: printable(k), Prefix: pf, Before: short(va), After: short(vb)})
			if max > 0 && len(out) >= max {
				return out
			}
		}
	}
	return out
}

// Digest of a dump.
func (r Raw) Digest() string {
	h := sha256.New()
	var ns []string
	for n := range r {
		ns = append(ns, n)
	}
	sort.Strings(ns)
	for _, n := range ns {
		m := r[n]
		var ks []string
		for k := range m {
			ks = append(ks, k)
		}
		sort.Strings(ks)
		fmt.Fprintf(h, "S%s:%d;", n, len(ks))
		for _, k := range ks {
			fmt.Fprintf(h, "%d:%s=%d:", len(k), k, len(m[k]))
			h.Write(m[k])
		}
	}
	return hex.EncodeToString(h.Sum(nil))
}

// Ledger is the typed view of assets + delegation state used by the ledger monitors. It is parsed
// from raw store bytes (not through the keepers' iterators).
type Ledger struct {
	Staker      map[string]assetstypes.StakerAssetInfo        // stakerID/assetID
	Operator    map[string]assetstypes.OperatorAssetInfo      // operator/assetID
	Asset       map[string]assetstypes.StakingAssetInfo       // assetID
	Delegation  map[string]delegationtypes.DelegationAmounts  // staker/asset/operator
	StakerList  map[string][]string                           // operator/asset
	Assoc       map[string]string                             // stakerID -> operator
	Undel       map[string]delegationtypes.UndelegationRecord // record key -> record
	StakerIdx   map[string]string                             // staker/asset/nonce -> record key
	PendingIdx  map[string]string                             // height/nonce -> record key
	Hold        map[string]uint64                             // record key -> count
	Escrow      sdkmath.Int                                   // bank balance of delegated_pool
	Bal         map[string]sdkmath.Int                        // bank balances (base denom) of watched accounts, by bech32
	ParseErrors []string
}

func splitKey(k string) []string { return strings.Split(k, "/") }

// ParseLedger builds the typed view from a raw dump containing "assets" and "delegation".
func (c *Chain) ParseLedger(ctx sdk.Context, raw Raw) *Ledger {
	l := &Ledger{
		Staker: map[string]assetstypes.StakerAssetInfo{}, Operator: map[string]assetstypes.OperatorAssetInfo{},
		Asset: map[string]assetstypes.StakingAssetInfo{}, Delegation: map[string]delegationtypes.DelegationAmounts{},
		StakerList: map[string][]string{}, Assoc: map[string]string{}, Undel: map[string]delegationtypes.UndelegationRecord{},
		StakerIdx: map[string]string{}, PendingIdx: map[string]string{}, Hold: map[string]uint64{},
	}
	perr := func(f string, a ...interface{}) { l.ParseErrors = append(l.ParseErrors, fmt.Sprintf(f, a...)) }
	holdPrefix := delegationtypes.GetUndelegationOnHoldKey(nil)[0]
	for k, v := range raw["assets"] {
		if len(k) == 0 {
			continue
		}
		body := k[1:]
		switch k[0] {
		case assetstypes.KeyPrefixReStakerAssetInfos[0]:
			var x assetstypes.StakerAssetInfo
			if err := proto.Unmarshal(v, &x); err != nil {
				perr("staker asset %s: %v", body, err)
				continue
			}
			l.Staker[body] = x
		case assetstypes.KeyPrefixOperatorAssetInfos[0]:
			var x assetstypes.OperatorAssetInfo
			if err := proto.Unmarshal(v, &x); err != nil {
				perr("operator asset %s: %v", body, err)
				continue
			}
			l.Operator[body] = x
		case assetstypes.KeyPrefixReStakingAssetInfo[0]:
			var x assetstypes.StakingAssetInfo
			if err := proto.Unmarshal(v, &x); err != nil {
				perr("asset %s: %v", body, err)
				continue
			}
			l.Asset[body] = x
		}
	}
	for k, v := range raw["delegation"] {
		if len(k) == 0 {
			continue
		}
		body := k[1:]
		switch k[0] {
		case delegationtypes.KeyPrefixRestakerDelegationInfo[0]:
			var x delegationtypes.DelegationAmounts
			if err := proto.Unmarshal(v, &x); err != nil {
				perr("delegation %s: %v", body, err)
				continue
			}
			l.Delegation[body] = x
		case delegationtypes.KeyPrefixStakersByOperator[0]:
			var x delegationtypes.StakerList
			if err := proto.Unmarshal(v, &x); err != nil {
				perr("stakerlist %s: %v", body, err)
				continue
			}
			l.StakerList[body] = x.Stakers
		case delegationtypes.KeyPrefixUndelegationInfo[0]:
			var x delegationtypes.UndelegationRecord
			if err := proto.Unmarshal(v, &x); err != nil {
				perr("undelegation %s: %v", body, err)
				continue
			}
			l.Undel[body] = x
		case delegationtypes.KeyPrefixStakerUndelegationInfo[0]:
			l.StakerIdx[body] = string(v)
		case delegationtypes.KeyPrefixPendingUndelegations[0]:
			l.PendingIdx[body] = string(v)
		case holdPrefix:
			l.Hold[body] = sdk.BigEndianToUint64(v)
		case delegationtypes.KeyPrefixAssociatedOperatorByStaker[0]:
			l.Assoc[body] = string(v)
		}
	}
	pool := authtypes.NewModuleAddress(delegationtypes.DelegatedPoolName)
	l.Escrow = c.App.BankKeeper.GetBalance(ctx, pool, utils.BaseDenom).Amount
	l.Bal = map[string]sdkmath.Int{}
	for _, a := range c.Watch {
		l.Bal[a.String()] = c.App.BankKeeper.GetBalance(ctx, a, utils.BaseDenom).Amount
	}
	return l
}

// Snap bundles a raw dump with its typed ledger.
type Snap struct {
	Raw    Raw
	Ledger *Ledger
	Op     *OpState
	Dog    *DogState
	Epochs map[string]epochstypes.EpochInfo
	AVS    map[string]avstypes.AVSInfo
	Supply sdkmath.Int // total supply of the base denom
	// OracleMem is the canonical dump (hook H1) of the oracle's process-level state at snapshot time
	OracleMem string
	Height    int64
}

var LedgerStores = []string{"assets", "delegation", "operator", "dogfood", "avs", "oracle", "reward", "exoslash", "epochs", "feedistribution", "exomint"}

func (c *Chain) Snapshot() *Snap {
	ctx := c.Ctx()
	raw := c.DumpStores(ctx, LedgerStores)
	s := &Snap{Raw: raw, Ledger: c.ParseLedger(ctx, raw), Op: ParseOpState(raw), Dog: ParseDogState(raw), AVS: ParseAVS(raw), Height: c.Height(), Epochs: map[string]epochstypes.EpochInfo{}}
	s.Supply = c.App.BankKeeper.GetSupply(ctx, utils.BaseDenom).Amount
	s.OracleMem = string(oraclekeeper.VerifOracleDump())
	for k, v := range raw["epochs"] {
		if len(k) > 0 && k[0] == epochstypes.KeyPrefixEpoch[0] {
			var e epochstypes.EpochInfo
			if proto.Unmarshal(v, &e) == nil {
				s.Epochs[k[1:]] = e
			}
		}
	}
	return s
}
