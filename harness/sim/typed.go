package sim

import (
	"encoding/hex"
	"fmt"
	"strings"

	sdkmath "cosmossdk.io/math"
	abci "github.com/cometbft/cometbft/abci/types"
	sdk "github.com/cosmos/cosmos-sdk/types"
	stakingtypes "github.com/cosmos/cosmos-sdk/x/staking/types"
	"github.com/cosmos/gogoproto/proto"

	avstypes "github.com/ExocoreNetwork/exocore/x/avs/types"
	dogfoodtypes "github.com/ExocoreNetwork/exocore/x/dogfood/types"
	operatortypes "github.com/ExocoreNetwork/exocore/x/operator/types"
	oracletypes "github.com/ExocoreNetwork/exocore/x/oracle/types"
)

// OpState is the typed view of the operator store parts the monitors need (parsed from raw bytes).
type OpState struct {
	Fwd     map[string]string                              // operator(bech32)|chain -> key bytes (hex of tm proto key bytes)
	ByChain map[string]string                              // chain|operator -> key hex
	Prev    map[string]string                              // chain|operator -> previous key hex
	Rev     map[string]string                              // chain|consAddrHEX -> operator bech32
	Removal map[string]bool                                // operator|chain
	Opted   map[string]operatortypes.OptedInfo             // operator/avs
	USD     map[string]operatortypes.OperatorOptedUSDValue // avs/operator
	AVSUSD  map[string]sdkmath.LegacyDec                   // avs
	Errors  []string
}

func splitChainAddr(b string) (chain string, rest []byte, ok bool) {
	if len(b) < 8 {
		return "", nil, false
	}
	n := sdk.BigEndianToUint64([]byte(b[:8]))
	if uint64(len(b)) < 8+n {
		return "", nil, false
	}
	return b[8 : 8+n], []byte(b[8+n:]), true
}

func splitAddrChain(b string) (addr []byte, chain string, ok bool) {
	if len(b) < 20+8 {
		return nil, "", false
	}
	addr = []byte(b[:20])
	n := sdk.BigEndianToUint64([]byte(b[20:28]))
	if uint64(len(b)) != 28+n {
		return nil, "", false
	}
	return addr, b[28:], true
}

func ParseOpState(raw Raw) *OpState {
	s := &OpState{Fwd: map[string]string{}, ByChain: map[string]string{}, Prev: map[string]string{}, Rev: map[string]string{},
		Removal: map[string]bool{}, Opted: map[string]operatortypes.OptedInfo{}, USD: map[string]operatortypes.OperatorOptedUSDValue{}, AVSUSD: map[string]sdkmath.LegacyDec{}}
	for k, v := range raw["operator"] {
		if len(k) == 0 {
			continue
		}
		body := k[1:]
		switch k[0] {
		case operatortypes.BytePrefixForOperatorAndChainIDToConsKey:
			if a, c, ok := splitAddrChain(body); ok {
				s.Fwd[sdk.AccAddress(a).String()+"|"+c] = hex.EncodeToString(v)
			} else {
				s.Errors = append(s.Errors, "bad fwd key")
			}
		case operatortypes.BytePrefixForChainIDAndOperatorToConsKey:
			if c, a, ok := splitChainAddr(body); ok {
				s.ByChain[c+"|"+sdk.AccAddress(a).String()] = hex.EncodeToString(v)
			}
		case operatortypes.BytePrefixForOperatorAndChainIDToPrevConsKey:
			if c, a, ok := splitChainAddr(body); ok {
				s.Prev[c+"|"+sdk.AccAddress(a).String()] = hex.EncodeToString(v)
			}
		case operatortypes.BytePrefixForChainIDAndConsKeyToOperator:
			if c, a, ok := splitChainAddr(body); ok {
				s.Rev[c+"|"+strings.ToUpper(hex.EncodeToString(a))] = sdk.AccAddress(v).String()
			}
		case operatortypes.BytePrefixForOperatorKeyRemovalForChainID:
			if a, c, ok := splitAddrChain(body); ok {
				s.Removal[sdk.AccAddress(a).String()+"|"+c] = true
			}
		case operatortypes.KeyPrefixOperatorOptedAVSInfo[0]:
			var x operatortypes.OptedInfo
			if proto.Unmarshal(v, &x) == nil {
				s.Opted[body] = x
			}
		case operatortypes.KeyPrefixUSDValueForOperator[0]:
			var x operatortypes.OperatorOptedUSDValue
			if proto.Unmarshal(v, &x) == nil {
				s.USD[body] = x
			}
		case operatortypes.KeyPrefixUSDValueForAVS[0]:
			var x operatortypes.DecValueField
			if proto.Unmarshal(v, &x) == nil {
				s.AVSUSD[body] = x.Amount
			}
		}
	}
	return s
}

// DogState is the typed view of the dogfood store.
type DogState struct {
	Validators     map[string]dogfoodtypes.ExocoreValidator // consAddr HEX -> validator
	OptOuts        map[int64][]string                       // epoch -> operators (bech32)
	OptOutEpoch    map[string]int64                         // operator -> epoch
	Prune          map[int64][]string                       // epoch -> consAddr HEX
	Mature         map[int64][]string                       // epoch -> record keys
	MaturityEpoch  map[string]int64                         // record key -> epoch
	PendingOptOuts []string
	PendingCons    []string
	PendingUndel   []string
	EpochEnd       bool
	LastTotalPower sdkmath.Int
	ValUpdates     []abci.ValidatorUpdate
	HasValUpdates  bool
	Params         dogfoodtypes.Params
	Errors         []string
}

func ParseDogState(raw Raw) *DogState {
	s := &DogState{Validators: map[string]dogfoodtypes.ExocoreValidator{}, OptOuts: map[int64][]string{}, OptOutEpoch: map[string]int64{},
		Prune: map[int64][]string{}, Mature: map[int64][]string{}, MaturityEpoch: map[string]int64{}, LastTotalPower: sdkmath.ZeroInt()}
	for k, v := range raw["dogfood"] {
		if len(k) == 0 {
			continue
		}
		body := []byte(k[1:])
		switch k[0] {
		case dogfoodtypes.ExocoreValidatorBytePrefix:
			var x dogfoodtypes.ExocoreValidator
			if err := proto.Unmarshal(v, &x); err != nil {
				s.Errors = append(s.Errors, "validator: "+err.Error())
				continue
			}
			s.Validators[strings.ToUpper(hex.EncodeToString(body))] = x
		case dogfoodtypes.OptOutsToFinishBytePrefix:
			var x dogfoodtypes.AccountAddresses
			if err := proto.Unmarshal(v, &x); err != nil {
				s.Errors = append(s.Errors, "optouts: "+err.Error())
				continue
			}
			e := int64(sdk.BigEndianToUint64(body))
			for _, a := range x.List {
				s.OptOuts[e] = append(s.OptOuts[e], sdk.AccAddress(a).String())
			}
			if len(x.List) == 0 {
				s.OptOuts[e] = []string{}
			}
		case dogfoodtypes.OperatorOptOutFinishEpochBytePrefix:
			s.OptOutEpoch[sdk.AccAddress(body).String()] = int64(sdk.BigEndianToUint64(v))
		case dogfoodtypes.ConsensusAddrsToPruneBytePrefix:
			var x dogfoodtypes.ConsensusAddresses
			if err := proto.Unmarshal(v, &x); err != nil {
				s.Errors = append(s.Errors, "prune: "+err.Error())
				continue
			}
			e := int64(sdk.BigEndianToUint64(body))
			for _, a := range x.List {
				s.Prune[e] = append(s.Prune[e], strings.ToUpper(hex.EncodeToString(a)))
			}
			if len(x.List) == 0 {
				s.Prune[e] = []string{}
			}
		case dogfoodtypes.UnbondingReleaseMaturityBytePrefix:
			var x dogfoodtypes.UndelegationRecordKeys
			if err := proto.Unmarshal(v, &x); err != nil {
				s.Errors = append(s.Errors, "mature: "+err.Error())
				continue
			}
			e := int64(sdk.BigEndianToUint64(body))
			for _, a := range x.List {
				s.Mature[e] = append(s.Mature[e], string(a))
			}
			if len(x.List) == 0 {
				s.Mature[e] = []string{}
			}
		case dogfoodtypes.PendingOptOutsByte:
			var x dogfoodtypes.AccountAddresses
			if proto.Unmarshal(v, &x) == nil {
				for _, a := range x.List {
					s.PendingOptOuts = append(s.PendingOptOuts, sdk.AccAddress(a).String())
				}
			}
		case dogfoodtypes.PendingConsensusAddrsByte:
			var x dogfoodtypes.ConsensusAddresses
			if proto.Unmarshal(v, &x) == nil {
				for _, a := range x.List {
					s.PendingCons = append(s.PendingCons, strings.ToUpper(hex.EncodeToString(a)))
				}
			}
		case dogfoodtypes.PendingUndelegationsByte:
			var x dogfoodtypes.UndelegationRecordKeys
			if proto.Unmarshal(v, &x) == nil {
				for _, a := range x.List {
					s.PendingUndel = append(s.PendingUndel, string(a))
				}
			}
		case dogfoodtypes.EpochEndByte:
			s.EpochEnd = true
		case dogfoodtypes.UndelegationMaturityEpochByte:
			s.MaturityEpoch[string(body)] = int64(sdk.BigEndianToUint64(v))
		case dogfoodtypes.LastTotalPowerByte:
			var ip sdk.IntProto
			if proto.Unmarshal(v, &ip) == nil {
				s.LastTotalPower = ip.Int
			}
		case dogfoodtypes.ParamsByte:
			_ = proto.Unmarshal(v, &s.Params)
		case dogfoodtypes.ValidatorUpdatesByte:
			var vu stakingtypes.ValidatorUpdates
			if proto.Unmarshal(v, &vu) == nil {
				s.ValUpdates = vu.Updates
				s.HasValUpdates = true
			}
		}
	}
	return s
}

func (s *DogState) TotalPower() int64 {
	t := int64(0)
	for _, v := range s.Validators {
		t += v.Power
	}
	return t
}

func fmtErr(f string, a ...interface{}) string { return fmt.Sprintf(f, a...) }

// ParseAVS returns the registered AVSs keyed by the address string stored in the info.
func ParseAVS(raw Raw) map[string]avstypes.AVSInfo {
	out := map[string]avstypes.AVSInfo{}
	for k, v := range raw["avs"] {
		if len(k) == 0 || k[0] != avstypes.KeyPrefixAVSInfo[0] {
			continue
		}
		var x avstypes.AVSInfo
		if proto.Unmarshal(v, &x) == nil {
			out[x.AvsAddress] = x
		}
	}
	return out
}

// LatestPrices reads, from raw oracle store bytes, the latest stored round per token id.
func LatestPrices(raw Raw) map[uint64]oracletypes.PriceTimeRound {
	out := map[uint64]oracletypes.PriceTimeRound{}
	next := map[uint64]uint64{}
	rounds := map[uint64]map[uint64]oracletypes.PriceTimeRound{}
	pfx := oracletypes.PricesKeyPrefix
	for k, v := range raw["oracle"] {
		if !strings.HasPrefix(k, pfx) {
			continue
		}
		rest := k[len(pfx):]
		if len(rest) < 9 {
			continue
		}
		tid := sdk.BigEndianToUint64([]byte(rest[:8]))
		sub := rest[9:]
		if sub == string(oracletypes.PricesNextRoundIDKey) {
			next[tid] = sdk.BigEndianToUint64(v)
			continue
		}
		if len(sub) == 9 {
			rid := sdk.BigEndianToUint64([]byte(sub[:8]))
			var p oracletypes.PriceTimeRound
			if proto.Unmarshal(v, &p) == nil {
				if rounds[tid] == nil {
					rounds[tid] = map[uint64]oracletypes.PriceTimeRound{}
				}
				rounds[tid][rid] = p
			}
		}
	}
	for tid, n := range next {
		if n <= 1 {
			continue
		}
		if p, ok := rounds[tid][n-1]; ok {
			out[tid] = p
		}
	}
	return out
}
