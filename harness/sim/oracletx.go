package sim

import (
	"strings"

	cryptotypes "github.com/cosmos/cosmos-sdk/crypto/types"
	sdk "github.com/cosmos/cosmos-sdk/types"
	"github.com/cosmos/cosmos-sdk/types/tx/signing"
	authsigning "github.com/cosmos/cosmos-sdk/x/auth/signing"
	"github.com/cosmos/gogoproto/proto"

	oracletypes "github.com/ExocoreNetwork/exocore/x/oracle/types"
)

// OracleTxOpts tweaks the signing of a price transaction (negative tests).
type OracleTxOpts struct {
	SignWith     cryptotypes.PrivKey // key that produces the signature (default: the key whose pubkey is attached)
	PubKey       cryptotypes.PubKey  // public key attached to the tx (default: key.PubKey())
	GarbageSig   bool                // 64 pseudo-random bytes instead of a signature
	NoSignature  bool                // empty signature bytes
	ChainID      string              // sign for another chain id
	Memo         string              // padding to exceed the size limit
	CreatorOther string              // msg.Creator set to this bech32 address instead of the key's address
}

// OracleCreator is the account address derived from a consensus key (the msg creator the ante handler expects).
func OracleCreator(k *ConsKey) string {
	return sdk.AccAddress(k.Priv.PubKey().Address()).String()
}

// OracleValidatorKey is the key under which the oracle stores nonces / powers for a validator.
func OracleValidatorKey(k *ConsKey) string {
	return sdk.ConsAddress(k.Priv.PubKey().Address()).String()
}

// OracleTx builds a fee-less price transaction with the given messages signed by the validator's consensus key.
func (c *Chain) OracleTx(k *ConsKey, opts OracleTxOpts, msgs ...sdk.Msg) ([]byte, error) {
	txb := c.TxCfg.NewTxBuilder()
	if err := txb.SetMsgs(msgs...); err != nil {
		return nil, err
	}
	txb.SetGasLimit(0)
	if opts.Memo != "" {
		txb.SetMemo(opts.Memo)
	}
	pub := cryptotypes.PubKey(k.Priv.PubKey())
	if opts.PubKey != nil {
		pub = opts.PubKey
	}
	mode := signing.SignMode_SIGN_MODE_DIRECT
	sig := signing.SignatureV2{PubKey: pub, Data: &signing.SingleSignatureData{SignMode: mode}, Sequence: 0}
	if err := txb.SetSignatures(sig); err != nil {
		return nil, err
	}
	chainID := c.ChainID
	if opts.ChainID != "" {
		chainID = opts.ChainID
	}
	bytesToSign, err := c.TxCfg.SignModeHandler().GetSignBytes(mode, authsigning.SignerData{ChainID: chainID}, txb.GetTx())
	if err != nil {
		return nil, err
	}
	var sigBz []byte
	switch {
	case opts.NoSignature:
		sigBz = nil
	case opts.GarbageSig:
		sigBz = []byte(strings.Repeat("\x5a\xc3", 32))
	default:
		priv := cryptotypes.PrivKey(k.Priv)
		if opts.SignWith != nil {
			priv = opts.SignWith
		}
		sigBz, err = priv.Sign(bytesToSign)
		if err != nil {
			return nil, err
		}
	}
	sig.Data = &signing.SingleSignatureData{SignMode: mode, Signature: sigBz}
	if err := txb.SetSignatures(sig); err != nil {
		return nil, err
	}
	return c.TxCfg.TxEncoder()(txb.GetTx())
}

// OracleNonces parses the nonce store: validator key -> feeder -> value.
func OracleNonces(raw Raw) map[string]map[uint64]uint32 {
	out := map[string]map[uint64]uint32{}
	pfx := oracletypes.NonceKeyPrefix
	for k, v := range raw["oracle"] {
		if !strings.HasPrefix(k, pfx) {
			continue
		}
		var n oracletypes.ValidatorNonce
		if proto.Unmarshal(v, &n) != nil {
			continue
		}
		m := map[uint64]uint32{}
		for _, e := range n.NonceList {
			m[e.FeederID] = e.Value
		}
		out[n.Validator] = m
	}
	return out
}

// OracleSlot is one signer slot of a multi-signer price transaction: the public key attached in the slot and the
// key that actually produces the slot's signature.
type OracleSlot struct {
	Pub  *ConsKey
	Sign *ConsKey
}

// OracleTxMulti builds a fee-less price transaction with one signer slot per entry of slots (zero slots: no signer
// info and no signature at all).
func (c *Chain) OracleTxMulti(slots []OracleSlot, msgs ...sdk.Msg) ([]byte, error) {
	txb := c.TxCfg.NewTxBuilder()
	if err := txb.SetMsgs(msgs...); err != nil {
		return nil, err
	}
	txb.SetGasLimit(0)
	mode := signing.SignMode_SIGN_MODE_DIRECT
	sigs := make([]signing.SignatureV2, len(slots))
	for i, sl := range slots {
		sigs[i] = signing.SignatureV2{PubKey: sl.Pub.Priv.PubKey(), Data: &signing.SingleSignatureData{SignMode: mode}, Sequence: 0}
	}
	if err := txb.SetSignatures(sigs...); err != nil {
		return nil, err
	}
	bytesToSign, err := c.TxCfg.SignModeHandler().GetSignBytes(mode, authsigning.SignerData{ChainID: c.ChainID}, txb.GetTx())
	if err != nil && len(slots) > 0 {
		return nil, err
	}
	for i, sl := range slots {
		sigBz, err := sl.Sign.Priv.Sign(bytesToSign)
		if err != nil {
			return nil, err
		}
		sigs[i].Data = &signing.SingleSignatureData{SignMode: mode, Signature: sigBz}
	}
	if err := txb.SetSignatures(sigs...); err != nil {
		return nil, err
	}
	return c.TxCfg.TxEncoder()(txb.GetTx())
}
