package sim

import (
	"encoding/json"
	"os"

	abci "github.com/cometbft/cometbft/abci/types"
	"github.com/ethereum/go-ethereum/common/hexutil"
	ethtypes "github.com/ethereum/go-ethereum/core/types"
	evmtypes "github.com/evmos/evmos/v16/x/evm/types"
)

// Read-only traffic of an RPC node (replica variant of C08): before a transaction is delivered, the
// node that "serves queries" dry-runs it the way wallets do: eth_call and eth_estimateGas for an
// Ethereum transaction (the gRPC queries the JSON-RPC server issues), the Simulate service for every
// other transaction. The dry runs execute on the committed state in check mode; whatever they do must
// not be visible in anything the node commits or answers afterwards.
var queryNoise = os.Getenv("VERIF_QUERY_NOISE") == "1"

// NoiseQueries counts the dry runs executed by this process.
var NoiseQueries, NoiseOK int64

// QueryNoiseOn tells whether this process is the query-serving replica.
func QueryNoiseOn() bool { return queryNoise }

// ServeDryRun answers the dry-run queries for a transaction that is not (or not yet) part of a block.
func (c *Chain) ServeDryRun(bz []byte) { c.serveDryRun(bz) }

func (c *Chain) serveDryRun(bz []byte) {
	defer func() { _ = recover() }()
	tx, err := c.TxCfg.TxDecoder()(bz)
	if err != nil {
		return
	}
	for _, m := range tx.GetMsgs() {
		em, ok := m.(*evmtypes.MsgEthereumTx)
		if !ok {
			continue
		}
		ethTx := em.AsTransaction()
		from, err := ethtypes.LatestSignerForChainID(ethTx.ChainId()).Sender(ethTx)
		if err != nil {
			return
		}
		data := hexutil.Bytes(ethTx.Data())
		gas := hexutil.Uint64(ethTx.Gas())
		args, _ := json.Marshal(evmtypes.TransactionArgs{From: &from, To: ethTx.To(), Data: &data, Gas: &gas, Value: (*hexutil.Big)(ethTx.Value())})
		req := evmtypes.EthCallRequest{Args: args, GasCap: 25_000_000, ProposerAddress: c.Header.ProposerAddress, ChainId: c.App.EvmKeeper.ChainID().Int64()}
		rb, _ := req.Marshal()
		for _, p := range []string{"/ethermint.evm.v1.Query/EthCall", "/ethermint.evm.v1.Query/EstimateGas"} {
			NoiseQueries++
			r := c.App.BaseApp.Query(abci.RequestQuery{Path: p, Data: rb})
			if r.Code == 0 {
				NoiseOK++
			}
		}
		return
	}
	NoiseQueries++
	if _, _, err := c.App.BaseApp.Simulate(bz); err == nil {
		NoiseOK++
	}
}
