// Package mon holds the monitors: one oracle per property, observing steps recorded by ops.World
// (or traces from the other engines) and reporting violations with a signature.
package mon

import (
	sdk "github.com/cosmos/cosmos-sdk/types"
	"fmt"
	"sort"
	"sync"
)

// Violation is one observed refutation of a property.
type Violation struct {
	Prop   string `json:"property"`
	Rule   string `json:"rule"`
	Sig    string `json:"signature"` // rule + specific site/input class; matched against known_findings.json
	Detail string `json:"detail"`
	Hist   string `json:"history"`
	Step   int    `json:"step"`
}

// Stats is what a monitor actually evaluated.
type Stats struct {
	mu       sync.Mutex
	Prop     string
	Evals    int64
	Rules    map[string]int64    // evaluations per rule
	Distinct map[string]struct{} // distinct non-trivial case classes observed
	Samples  []interface{}
	Viol     []Violation
	maxSamp  int
}

func NewStats(prop string) *Stats {
	return &Stats{Prop: prop, Rules: map[string]int64{}, Distinct: map[string]struct{}{}, maxSamp: 6}
}

func (s *Stats) Eval(rule string) {
	s.mu.Lock()
	s.Evals++
	s.Rules[rule]++
	s.mu.Unlock()
}

func (s *Stats) EvalN(rule string, n int) {
	s.mu.Lock()
	s.Evals += int64(n)
	s.Rules[rule] += int64(n)
	s.mu.Unlock()
}

func (s *Stats) Case(class string) {
	s.mu.Lock()
	s.Distinct[class] = struct{}{}
	s.mu.Unlock()
}

func (s *Stats) Sample(x interface{}) {
	s.mu.Lock()
	if len(s.Samples) < s.maxSamp {
		s.Samples = append(s.Samples, x)
	}
	s.mu.Unlock()
}

func (s *Stats) Violate(rule, site, hist string, step int, f string, a ...interface{}) {
	s.mu.Lock()
	defer s.mu.Unlock()
	sig := s.Prop + "/" + rule
	if site != "" {
		sig += "@" + site
	}
	if len(s.Viol) < 400 {
		s.Viol = append(s.Viol, Violation{Prop: s.Prop, Rule: rule, Sig: sig, Detail: fmt.Sprintf(f, a...), Hist: hist, Step: step})
	}
}

func (s *Stats) DistinctList() []string {
	s.mu.Lock()
	defer s.mu.Unlock()
	out := make([]string, 0, len(s.Distinct))
	for k := range s.Distinct {
		out = append(out, k)
	}
	sort.Strings(out)
	return out
}

// Merge adds o into s.
func (s *Stats) Merge(o *Stats) {
	s.mu.Lock()
	defer s.mu.Unlock()
	s.Evals += o.Evals
	for k, v := range o.Rules {
		s.Rules[k] += v
	}
	for k := range o.Distinct {
		s.Distinct[k] = struct{}{}
	}
	for _, x := range o.Samples {
		if len(s.Samples) < s.maxSamp {
			s.Samples = append(s.Samples, x)
		}
	}
	s.Viol = append(s.Viol, o.Viol...)
}

func sdkAccFromBech32(s string) ([]byte, error) {
	a, err := sdk.AccAddressFromBech32(s)
	return a, err
}

// StatsJSON is the wire form of Stats (child process -> parent).
type StatsJSON struct {
	Prop     string           `json:"prop"`
	Evals    int64            `json:"evals"`
	Rules    map[string]int64 `json:"rules"`
	Distinct []string         `json:"distinct"`
	Samples  []interface{}    `json:"samples"`
	Viol     []Violation      `json:"violations"`
}

func (s *Stats) ToJSON() StatsJSON {
	return StatsJSON{Prop: s.Prop, Evals: s.Evals, Rules: s.Rules, Distinct: s.DistinctList(), Samples: s.Samples, Viol: s.Viol}
}

func FromJSON(j StatsJSON) *Stats {
	s := NewStats(j.Prop)
	s.Evals = j.Evals
	for k, v := range j.Rules {
		s.Rules[k] = v
	}
	for _, d := range j.Distinct {
		s.Distinct[d] = struct{}{}
	}
	s.Samples = j.Samples
	s.Viol = j.Viol
	return s
}

func trunc(s string, n int) string {
	if len(s) > n {
		return s[:n]
	}
	return s
}
