package mon

import (
	"bytes"
	"encoding/hex"
	"fmt"
	"sort"
	"strings"

	abci "github.com/cometbft/cometbft/abci/types"
	cryptocodec "github.com/cosmos/cosmos-sdk/crypto/codec"
	sdk "github.com/cosmos/cosmos-sdk/types"

	avstypes "github.com/ExocoreNetwork/exocore/x/avs/types"
	operatortypes "github.com/ExocoreNetwork/exocore/x/operator/types"

	"verif/ops"
	"verif/sim"
)

// C06 — validator-set updates handed to consensus.
type C06 struct {
	S    *Stats
	Hist string
	// cons is the validator set as the consensus engine knows it: genesis set plus every update list returned
	// so far (cumulative; independent of what the application stores)
	cons map[string]int64
}

func NewC06(hist string) *C06 { return &C06{S: NewStats("C06"), Hist: hist} }

type cand struct {
	op    []byte
	cons  string
	power int64
}

func (m *C06) OnStep(w *ops.World, st *ops.Step) {
	if st.Kind != "end_block" || st.Pre == nil || st.Post == nil || st.EndBlock == nil {
		return
	}
	chain := avstypes.ChainIDWithoutRevision(w.C.ChainID)
	pre, post := st.Pre, st.Post
	updates := st.EndBlock.ValidatorUpdates

	prev := map[string]int64{}
	for ca, v := range pre.Dog.Validators {
		prev[ca] = v.Power
	}
	stored := map[string]int64{}
	for ca, v := range post.Dog.Validators {
		stored[ca] = v.Power
	}

	if m.cons == nil {
		m.cons = map[string]int64{}
		for k, v := range prev {
			m.cons[k] = v
		}
	}
	defer func() {
		// what consensus knows after this block
		for _, u := range updates {
			pk, err := cryptocodec.FromTmProtoPublicKey(u.PubKey)
			if err != nil {
				continue
			}
			ca := strings.ToUpper(hex.EncodeToString(pk.Address()))
			if u.Power == 0 {
				if _, ok := m.cons[ca]; !ok {
					m.S.Violate("update-removes-key-unknown-to-consensus", "", m.Hist, st.I, "block %d removes %s which consensus does not have (consensus set %v)", st.Height, ca, m.cons)
				}
				delete(m.cons, ca)
			} else {
				m.cons[ca] = u.Power
			}
		}
		m.S.Eval("consensus-equals-stored")
		if !sameSet(m.cons, stored) {
			m.S.Violate("consensus-set-differs-from-stored-set", classDiff(m.cons, stored), m.Hist, st.I, "after block %d consensus has %v but the application stores %v", st.Height, m.cons, stored)
			// resynchronise so that one divergence is reported once
			m.cons = map[string]int64{}
			for k, v := range stored {
				m.cons[k] = v
			}
		}
	}()
	if !pre.Dog.EpochEnd {
		m.S.Eval("non-epoch-block-empty")
		if len(updates) != 0 {
			m.S.Violate("updates-outside-epoch-end", "", m.Hist, st.I, "block %d does not close a dogfood epoch but returned %d validator updates", st.Height, len(updates))
		}
		if !sameSet(prev, stored) {
			m.S.Violate("stored-set-changed-outside-epoch-end", "", m.Hist, st.I, "stored validator set changed in block %d: %v -> %v", st.Height, prev, stored)
		}
		if !post.Dog.LastTotalPower.Equal(pre.Dog.LastTotalPower) {
			m.S.Violate("total-power-changed-outside-epoch-end", "", m.Hist, st.I, "LastTotalPower %s -> %s", pre.Dog.LastTotalPower, post.Dog.LastTotalPower)
		}
		return
	}

	// reference: eligible top set from the state before EndBlock
	avs := w.AVSAddr
	var cands []cand
	refOK := true
	for k, keyHex := range pre.Op.ByChain {
		p := strings.SplitN(k, "|", 2)
		if p[0] != chain {
			continue
		}
		op := p[1]
		info, ok := pre.Op.Opted[op+"/"+avs]
		if !ok || info.OptedOutHeight != operatortypes.DefaultOptedOutHeight || info.Jailed {
			continue
		}
		usd, ok := pre.Op.USD[avs+"/"+op]
		if !ok {
			refOK = false // the code refuses to compute a set at all in this state; not judged
			continue
		}
		acc, _ := sdk.AccAddressFromBech32(op)
		if !usd.ActiveUSDValue.TruncateInt().IsInt64() {
			refOK = false
			continue
		}
		cands = append(cands, cand{op: acc, cons: consAddrOfKeyHex(keyHex), power: usd.ActiveUSDValue.TruncateInt64()})
	}
	if !refOK {
		m.S.Eval("reference-undefined")
		return
	}
	sort.Slice(cands, func(i, j int) bool {
		if cands[i].power != cands[j].power {
			return cands[i].power > cands[j].power
		}
		return bytes.Compare(cands[i].op, cands[j].op) < 0
	})
	maxV := int(pre.Dog.Params.MaxValidators)
	want := map[string]int64{}
	tie, capped, sub := false, false, false
	for i, c := range cands {
		if c.power < 1 {
			sub = true
			continue
		}
		if i >= maxV {
			capped = true
			continue
		}
		if i > 0 && cands[i-1].power == c.power {
			tie = true
		}
		want[c.cons] = c.power
	}

	if len(want) == 0 && len(prev) > 0 {
		m.S.Eval("eligible-set-empty")
		var desc []string
		for _, c := range cands {
			desc = append(desc, fmt.Sprintf("%s:%d", sdk.AccAddress(c.op).String(), c.power))
		}
		m.S.Case("eligible-set-empty")
		if st.P != nil {
			st.P["c06_note"] = fmt.Sprintf("eligible set empty; candidates %v; opted %d; usd %d", desc, len(pre.Op.Opted), len(pre.Op.USD))
		}
	}
	// the update list itself
	seen := map[string]bool{}
	next := map[string]int64{}
	for k, v := range prev {
		next[k] = v
	}
	added, removed, repowered := 0, 0, 0
	for _, u := range updates {
		pk, err := cryptocodec.FromTmProtoPublicKey(u.PubKey)
		if err != nil {
			m.S.Violate("update-bad-key", "", m.Hist, st.I, "undecodable key in update list: %v", err)
			continue
		}
		ca := strings.ToUpper(hex.EncodeToString(pk.Address()))
		m.S.Eval("update-wellformed")
		if seen[ca] {
			m.S.Violate("update-duplicate-key", "", m.Hist, st.I, "key %s twice in the update list", ca)
		}
		seen[ca] = true
		_, known := prev[ca]
		switch {
		case u.Power == 0 && !known:
			m.S.Violate("update-removes-unknown-key", "", m.Hist, st.I, "removal of %s which is not in the previous set", ca)
		case u.Power == 0:
			delete(next, ca)
			removed++
		case u.Power < 0:
			m.S.Violate("update-negative-power", "", m.Hist, st.I, "power %d for %s", u.Power, ca)
		default:
			if known {
				repowered++
			} else {
				added++
			}
			next[ca] = u.Power
		}
	}
	m.S.Eval("prev-plus-updates-is-top-set")
	if !sameSet(next, want) {
		m.S.Violate("consensus-set-differs-from-eligible-top-set", classDiff(next, want), m.Hist, st.I, "block %d: previous set ⊕ updates = %v, eligible top set = %v (prev %v, updates %d, max %d)", st.Height, next, want, prev, len(updates), maxV)
	}
	m.S.Eval("stored-set-is-top-set")
	if !sameSet(stored, want) {
		m.S.Violate("stored-set-differs-from-eligible-top-set", classDiff(stored, want), m.Hist, st.I, "block %d: stored set %v, eligible top set %v", st.Height, stored, want)
	}
	m.S.Eval("stored-equals-consensus")
	if !sameSet(stored, next) {
		m.S.Violate("stored-set-differs-from-consensus", "", m.Hist, st.I, "block %d: stored set %v but consensus was told %v", st.Height, stored, next)
	}
	sum := int64(0)
	for _, p := range want {
		sum += p
	}
	m.S.Eval("total-power")
	if !post.Dog.LastTotalPower.IsInt64() || post.Dog.LastTotalPower.Int64() != sum {
		m.S.Violate("total-power-mismatch", "", m.Hist, st.I, "LastTotalPower=%s, sum of set=%d", post.Dog.LastTotalPower, sum)
	}
	m.S.Eval("stored-updates-equal-returned")
	if !sameUpdates(post.Dog.ValUpdates, updates) {
		m.S.Violate("stored-updates-differ-from-returned", "", m.Hist, st.I, "stored ValidatorUpdates (%d) differ from the returned list (%d)", len(post.Dog.ValUpdates), len(updates))
	}
	nb := func(n int) string {
		if n > 2 {
			return "3+"
		}
		return fmt.Sprint(n)
	}
	m.S.Case(fmt.Sprintf("prev=%s|new=%s|added=%s|removed=%s|repowered=%s|tie=%v|capped=%v|subunit=%v", nb(len(prev)), nb(len(want)), nb(added), nb(removed), nb(repowered), tie, capped, sub))
}

func sameSet(a, b map[string]int64) bool {
	if len(a) != len(b) {
		return false
	}
	for k, v := range a {
		if w, ok := b[k]; !ok || w != v {
			return false
		}
	}
	return true
}

func classDiff(got, want map[string]int64) string {
	for k := range got {
		if _, ok := want[k]; !ok {
			return "extra-validator"
		}
	}
	for k := range want {
		if _, ok := got[k]; !ok {
			return "missing-validator"
		}
	}
	return "wrong-power"
}

func sameUpdates(a, b []abci.ValidatorUpdate) bool {
	if len(a) != len(b) {
		return false
	}
	for i := range a {
		x, _ := a[i].Marshal()
		y, _ := b[i].Marshal()
		if !bytes.Equal(x, y) {
			return false
		}
	}
	return true
}

var _ = sim.RestakingStores
