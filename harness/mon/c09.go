package mon

import (
	"fmt"
	"strings"

	oracletypes "github.com/ExocoreNetwork/exocore/x/oracle/types"

	"verif/ops"
	"verif/sim"
)

// C09 — a reported failure leaves no trace (first sentence): attached to every history of every engine.
type C09 struct {
	S    *Stats
	Hist string
	// NormMem normalises the oracle memory dump before comparison (set by the oracle engine)
	NormMem func(string) string
}

func NewC09(hist string) *C09 { return &C09{S: NewStats("C09"), Hist: hist} }

// entry classifies the entry point of a step for signatures / distinct classes.
func entry(st *ops.Step) string {
	e := st.Kind
	if st.Via != "" {
		e += "/" + st.Via
	}
	return e
}

// failClass gives a coarse reason class from the error text.
func failClass(st *ops.Step) string {
	e := strings.ToLower(st.Err + " " + st.Panic)
	switch {
	case st.Panic != "" || strings.Contains(e, "recovered"):
		if strings.Contains(e, "overflow") {
			return "panic-overflow"
		}
		return "panic"
	case strings.Contains(e, "precompile returned false"):
		return "precompile-false"
	case strings.Contains(e, "vmerr"):
		return "vm-error"
	case strings.Contains(e, "insufficient") || strings.Contains(e, "too big") || strings.Contains(e, "more than"):
		return "insufficient"
	case strings.Contains(e, "not exist") || strings.Contains(e, "not found") || strings.Contains(e, "no stored key") || strings.Contains(e, "unknown"):
		return "unknown-entity"
	case strings.Contains(e, "already"):
		return "duplicate"
	case strings.Contains(e, "signature") || strings.Contains(e, "unauthorized") || strings.Contains(e, "pubkey"):
		return "auth"
	case strings.Contains(e, "nonce") || strings.Contains(e, "sequence"):
		return "nonce"
	case strings.Contains(e, "invalid"):
		return "invalid-input"
	}
	return "other"
}

func (m *C09) OnStep(w *ops.World, st *ops.Step) {
	if st.Pre == nil || st.Post == nil || !st.Fail {
		return
	}
	if st.Kind == "begin_block" || st.Kind == "end_block" {
		return
	}
	if st.Via == "keeper" && st.Panic != "" {
		// see mon/c01.go: a panicking keeper call of the harness has no production counterpart that keeps partial writes
		m.S.Eval("keeper-step-panic-not-judged")
		return
	}
	m.S.Eval("failed-step-leaves-no-trace")
	cls := failClass(st)
	m.S.Case(entry(st) + "|" + cls)
	pre := sim.Raw{}
	post := sim.Raw{}
	for _, n := range sim.RestakingStores {
		pre[n], post[n] = st.Pre.Raw[n], st.Post.Raw[n]
	}
	diffs := sim.DiffRaw(pre, post, 8)
	// a price transaction may be admitted (ante passed: the sender's oracle nonce moves) and then fail; that is
	// "apart from ... sequence/nonce changes"
	var real []sim.Diff
	for _, d := range diffs {
		if d.Store == "oracle" && strings.Contains(d.Key, oracletypes.NonceKeyPrefix[1:]) && strings.HasPrefix(st.Kind, "price") {
			continue
		}
		real = append(real, d)
	}
	if len(real) > 0 {
		site := entry(st) + "|" + real[0].Store + ":" + real[0].Prefix
		m.S.Violate("failed-operation-changed-store", site, m.Hist, st.I, "%s reported failure (%s) but changed %d+ keys, first: %+v; params %v", entry(st), trunc(st.Err+st.Panic, 160), len(real), real[0], st.P)
	}
	a, b := st.Pre.OracleMem, st.Post.OracleMem
	if m.NormMem != nil {
		a, b = m.NormMem(a), m.NormMem(b)
	}
	m.S.Eval("failed-step-leaves-oracle-memory")
	if a != b {
		m.S.Violate("failed-operation-changed-oracle-memory", entry(st)+"|"+cls, m.Hist, st.I, "%s reported failure (%s) but the oracle's in-memory state changed; params %v", entry(st), trunc(st.Err+st.Panic, 160), st.P)
	}
	_ = fmt.Sprint
}
