package mon

import (
	"encoding/hex"
	"fmt"
	"strings"

	tmprotocrypto "github.com/cometbft/cometbft/proto/tendermint/crypto"
	"github.com/cosmos/gogoproto/proto"

	keytypes "github.com/ExocoreNetwork/exocore/types/keys"
	avstypes "github.com/ExocoreNetwork/exocore/x/avs/types"

	"verif/ops"
	"verif/sim"
)

// C07 — consensus-key registry.
type C07 struct {
	S    *Stats
	Hist string
	// consensus addresses (HEX) that were ever part of the stored validator set -> operator
	everActive map[string]string
	// obligations: consAddr HEX -> last epoch (inclusive) during which it must stay resolvable
	mustLive map[string]obligation
	// addresses whose obligation ended: must be pruned
	started bool
}

type obligation struct {
	untilEpoch int64 // resolvable in every block up to and including the one that closes this epoch
	operator   string
	why        string
	step       int
}

func NewC07(hist string) *C07 {
	return &C07{S: NewStats("C07"), Hist: hist, everActive: map[string]string{}, mustLive: map[string]obligation{}}
}

func consAddrOfKeyHex(h string) string {
	bz, err := hex.DecodeString(h)
	if err != nil {
		return ""
	}
	var pk tmprotocrypto.PublicKey
	if err := proto.Unmarshal(bz, &pk); err != nil {
		return ""
	}
	w := keytypes.NewWrappedConsKeyFromTmProtoKey(&pk)
	if w == nil {
		return ""
	}
	return strings.ToUpper(hex.EncodeToString(w.ToConsAddr()))
}

func (m *C07) OnStep(w *ops.World, st *ops.Step) {
	if st.Pre == nil || st.Post == nil {
		return
	}
	chain := avstypes.ChainIDWithoutRevision(w.C.ChainID)
	pre, post := st.Pre, st.Post
	if !m.started {
		m.started = true
		m.noteActive(pre, chain)
	}
	m.consistency(w, st, post.Op, chain)

	dp := post.Dog.Params
	epoch := post.Epochs[dp.EpochIdentifier].CurrentEpoch

	// key-setting operations
	if (st.Kind == "setkey" || st.Kind == "optin") && st.Oper != nil {
		if key, ok := st.Extra.(*sim.ConsKey); ok && key != nil {
			ca := strings.ToUpper(hex.EncodeToString(key.ConsAddr()))
			owner, used := pre.Op.Rev[chain+"|"+ca]
			own := ""
			if cur, ok := pre.Op.Fwd[st.Oper.Addr()+"|"+chain]; ok {
				own = consAddrOfKeyHex(cur)
			}
			status := "fresh"
			switch {
			case used && ca == own:
				status = "own-current"
			case used && owner == st.Oper.Addr():
				status = "own-previous"
			case used:
				status = "others"
			}
			removing := pre.Op.Removal[st.Oper.Addr()+"|"+chain]
			m.S.Eval("key-in-use-rejected")
			m.S.Case(fmt.Sprintf("%s|key=%s|removing=%v|ack=%v", st.Kind, status, removing, st.Ack))
			if st.Ack && used && ca != own {
				m.S.Violate("key-in-use-accepted", status, m.Hist, st.I, "%s with a key already registered to %s was accepted (%v)", st.Kind, owner, st.P)
			}
			if st.Ack && removing {
				m.S.Violate("key-set-while-removing", st.Kind, m.Hist, st.I, "%s accepted although the operator is removing its key (%v)", st.Kind, st.P)
			}
			// a key that is registered afresh starts a new life: whatever it did in an earlier, fully pruned
			// registration no longer counts
			if st.Ack && !used {
				delete(m.everActive, ca)
			}
			// replacement of an active key starts an obligation for the old key
			if st.Ack && st.Kind == "setkey" && own != "" && own != ca {
				if _, act := m.everActive[own]; act {
					if _, has := m.mustLive[own]; !has {
						m.mustLive[own] = obligation{untilEpoch: epoch + int64(dp.EpochsUntilUnbonded), operator: st.Oper.Addr(), why: "replaced" + inSet(pre, own), step: st.I}
					}
				}
			}
		}
	}
	if st.Kind == "optout" && st.Ack && st.Oper != nil && st.P["avs"] == w.AVSAddr {
		if cur, ok := pre.Op.Fwd[st.Oper.Addr()+"|"+chain]; ok {
			own := consAddrOfKeyHex(cur)
			if _, act := m.everActive[own]; act {
				if _, has := m.mustLive[own]; !has {
					m.mustLive[own] = obligation{untilEpoch: epoch + int64(dp.EpochsUntilUnbonded), operator: st.Oper.Addr(), why: "removal" + inSet(pre, own), step: st.I}
				}
			}
		}
	}

	// obligations: resolvable while pending; pruned afterwards
	for ca, ob := range m.mustLive {
		owner, ok := post.Op.Rev[chain+"|"+ca]
		// the block that closes epoch ob.untilEpoch: BeginBlock makes CurrentEpoch = untilEpoch+1; its EndBlock prunes
		closed := epoch > ob.untilEpoch
		m.S.Eval("ever-active-resolvable")
		if !closed || (st.Kind != "end_block" && epoch == ob.untilEpoch+1 && post.Dog.EpochEnd) {
			// still within the obligation (including the closing block before its EndBlock)
			if !ok || owner != ob.operator {
				// distinguish the class: did the key leave the stored set before the replacement?
				m.S.Violate("ever-active-unresolvable", ob.why, m.Hist, st.I, "consensus address %s of %s (%s at step %d, must stay resolvable through epoch %d) is not resolvable after %s at epoch %d", ca, ob.operator, ob.why, ob.step, ob.untilEpoch, st.Kind, epoch)
				delete(m.mustLive, ca)
				delete(m.everActive, ca)
			}
			continue
		}
		if st.Kind == "end_block" || epoch > ob.untilEpoch+1 {
			m.S.Eval("pruned-on-time")
			m.S.Case("pruned|" + ob.why)
			if ok {
				// the address may legitimately be registered again (fresh use by an operator after pruning)
				if cur, has := post.Op.Fwd[owner+"|"+chain]; !(has && consAddrOfKeyHex(cur) == ca) {
					m.S.Violate("not-pruned", ob.why, m.Hist, st.I, "consensus address %s (%s, obligation ended with epoch %d) still in the reverse lookup at epoch %d", ca, ob.why, ob.untilEpoch, epoch)
				}
			}
			delete(m.mustLive, ca)
			delete(m.everActive, ca)
		}
	}
	m.noteActive(post, chain)
}

func inSet(s *sim.Snap, ca string) string {
	if _, ok := s.Dog.Validators[ca]; ok {
		return "|in-stored-set"
	}
	return "|left-stored-set-earlier"
}

func (m *C07) noteActive(s *sim.Snap, chain string) {
	for ca := range s.Dog.Validators {
		if op, ok := s.Op.Rev[chain+"|"+ca]; ok {
			m.everActive[ca] = op
		}
	}
}

func (m *C07) consistency(w *ops.World, st *ops.Step, o *sim.OpState, chain string) {
	// forward maps identical
	for k, v := range o.Fwd {
		p := strings.SplitN(k, "|", 2)
		m.S.Eval("forward-maps-agree")
		if o.ByChain[p[1]+"|"+p[0]] != v {
			m.S.Violate("forward-maps-disagree", "", m.Hist, st.I, "operator->key %s=%s but chain->operator->key=%s after %s %v", k, v, o.ByChain[p[1]+"|"+p[0]], st.Kind, st.P)
		}
	}
	for k := range o.ByChain {
		p := strings.SplitN(k, "|", 2)
		if _, ok := o.Fwd[p[1]+"|"+p[0]]; !ok {
			m.S.Violate("forward-maps-disagree", "", m.Hist, st.I, "chain->operator->key has %s without operator->key after %s", k, st.Kind)
		}
	}
	// reverse map gives that operator; keys unique
	seen := map[string]string{}
	for k, v := range o.Fwd {
		p := strings.SplitN(k, "|", 2)
		ca := consAddrOfKeyHex(v)
		m.S.Eval("reverse-agrees")
		if got := o.Rev[p[1]+"|"+ca]; got != p[0] {
			m.S.Violate("reverse-lookup-disagrees", "current-key", m.Hist, st.I, "operator %s has key with address %s but reverse lookup gives %q after %s %v", p[0], ca, got, st.Kind, st.P)
		}
		if other, dup := seen[p[1]+"|"+ca]; dup && other != p[0] {
			m.S.Violate("key-shared", "current-key", m.Hist, st.I, "operators %s and %s both hold key %s", other, p[0], ca)
		}
		seen[p[1]+"|"+ca] = p[0]
	}
	for k, v := range o.Prev {
		p := strings.SplitN(k, "|", 2)
		ca := consAddrOfKeyHex(v)
		m.S.Eval("prev-key-owner")
		// only a replaced key that was active has something left to mature; a never-active one is released at once
		if got, ok := o.Rev[p[0]+"|"+ca]; ok && got != p[1] && m.everActive[ca] == p[1] {
			m.S.Violate("reverse-lookup-disagrees", "previous-key", m.Hist, st.I, "previous key %s of %s resolves to %s", ca, p[1], got)
		}
	}
	if len(o.Fwd) >= 2 {
		m.S.Case(fmt.Sprintf("consistency|operators=%d|prev=%v|removing=%v", min(len(o.Fwd), 5), len(o.Prev) > 0, len(o.Removal) > 0))
	}
}
