package mon

import (
	"fmt"
	"math/big"
	"math/rand"
	"sort"
	"strings"

	sdkmath "cosmossdk.io/math"

	delegationkeeper "github.com/ExocoreNetwork/exocore/x/delegation/keeper"

	"verif/ops"
	"verif/sim"
)

// C02 — share accounting and fairness.
type C02 struct {
	S    *Stats
	Hist string
	// pending round trip: key staker/asset/operator -> x delegated from zero share at step i
	rt map[string]rtEntry
}

type rtEntry struct {
	x    sdkmath.Int
	step int
}

func NewC02(hist string) *C02 { return &C02{S: NewStats("C02"), Hist: hist, rt: map[string]rtEntry{}} }

func poolClass(ta sdkmath.Int, ts sdkmath.LegacyDec) string {
	if ta.IsZero() {
		return "empty"
	}
	tsInt := ts.TruncateInt()
	if ts.Equal(sdkmath.LegacyNewDecFromInt(ta)) {
		return "1:1"
	}
	if tsInt.IsZero() {
		return "weird"
	}
	// ratio bucket
	r := new(big.Rat).SetFrac(ta.BigInt(), tsInt.BigInt())
	f, _ := r.Float64()
	switch {
	case f >= 0.5:
		return "skew>=0.5"
	case f >= 1e-3:
		return "skew>=1e-3"
	default:
		return "skew<1e-3"
	}
}

// value = floor(share*TA/TS)
func value(share sdkmath.LegacyDec, ta sdkmath.Int, ts sdkmath.LegacyDec) sdkmath.Int {
	if ts.IsNil() || !ts.IsPositive() || share.IsNil() {
		return sdkmath.ZeroInt()
	}
	n := new(big.Int).Mul(share.BigInt(), ta.BigInt())
	return sdkmath.NewIntFromBigInt(n.Quo(n, ts.BigInt()))
}

func (m *C02) OnStep(w *ops.World, st *ops.Step) {
	if st.Pre == nil || st.Post == nil {
		return
	}
	m.invariants(w, st, st.Post.Ledger)
	m.fairness(w, st)
}

func (m *C02) invariants(w *ops.World, st *ops.Step, l *sim.Ledger) {
	sumShare := map[string]sdkmath.LegacyDec{}  // operator/asset
	selfShare := map[string]sdkmath.LegacyDec{} // operator/asset
	holders := map[string]map[string]bool{}
	anyShare := map[string]bool{}
	for k, d := range l.Delegation {
		p := strings.Split(k, "/")
		if len(p) != 3 {
			continue
		}
		staker, asset, op := p[0], p[1], p[2]
		pk := op + "/" + asset
		if _, ok := sumShare[pk]; !ok {
			sumShare[pk] = sdkmath.LegacyZeroDec()
			selfShare[pk] = sdkmath.LegacyZeroDec()
			holders[pk] = map[string]bool{}
		}
		sumShare[pk] = sumShare[pk].Add(d.UndelegatableShare)
		if l.Assoc[staker] == op {
			selfShare[pk] = selfShare[pk].Add(d.UndelegatableShare)
		}
		if d.UndelegatableShare.IsPositive() {
			holders[pk][staker] = true
			anyShare[pk] = true
		}
	}
	keys := map[string]bool{}
	for k := range l.Operator {
		keys[k] = true
	}
	for k := range sumShare {
		keys[k] = true
	}
	for k := range l.StakerList {
		keys[k] = true
	}
	for pk := range keys {
		info, ok := l.Operator[pk]
		ts, os, ta := sdkmath.LegacyZeroDec(), sdkmath.LegacyZeroDec(), sdkmath.ZeroInt()
		if ok {
			ts, os, ta = info.TotalShare, info.OperatorShare, info.TotalAmount
		}
		ss, ok2 := sumShare[pk]
		if !ok2 {
			ss = sdkmath.LegacyZeroDec()
		}
		sf, ok3 := selfShare[pk]
		if !ok3 {
			sf = sdkmath.LegacyZeroDec()
		}
		cls := poolClass(ta, ts)
		nh := len(holders[pk])
		hb := "0"
		if nh == 1 {
			hb = "1"
		} else if nh > 1 {
			hb = "2+"
		}
		m.S.Eval("total-share")
		if !ts.Equal(ss) {
			m.S.Violate("total-share", cls, m.Hist, st.I, "pool %s TotalShare=%s Σshares=%s after %s %v", pk, ts, ss, st.Kind, st.P)
		}
		m.S.Eval("operator-share")
		if !os.Equal(sf) {
			m.S.Violate("operator-share", cls, m.Hist, st.I, "pool %s OperatorShare=%s Σassociated=%s after %s %v", pk, os, sf, st.Kind, st.P)
		}
		m.S.Eval("staker-list")
		list := l.StakerList[pk]
		seen := map[string]bool{}
		dup := false
		for _, s := range list {
			if seen[s] {
				dup = true
			}
			seen[s] = true
		}
		okSet := len(seen) == len(holders[pk])
		for s := range holders[pk] {
			if !seen[s] {
				okSet = false
			}
		}
		if dup || !okSet {
			var hs []string
			for s := range holders[pk] {
				hs = append(hs, s)
			}
			sort.Strings(hs)
			m.S.Violate("staker-list", cls, m.Hist, st.I, "pool %s list=%v holders=%v after %s %v", pk, list, hs, st.Kind, st.P)
		}
		m.S.Eval("zero-pool")
		if ta.IsZero() && (ts.IsPositive() || anyShare[pk]) {
			m.S.Violate("zero-pool-has-shares", cls, m.Hist, st.I, "pool %s TotalAmount=0 but TotalShare=%s after %s %v", pk, ts, st.Kind, st.P)
		}
		if nh > 0 {
			assoc := "none"
			if sf.IsPositive() {
				assoc = "self"
			}
			m.S.Case(fmt.Sprintf("inv|%s|holders=%s|%s", cls, hb, assoc))
		}
	}
}

func (m *C02) fairness(w *ops.World, st *ops.Step) {
	if st.Kind != "delegate" && st.Kind != "undelegate" {
		return
	}
	if !st.Ack || st.Staker == nil || st.Asset == nil || st.Oper == nil {
		return
	}
	pre, post := st.Pre.Ledger, st.Post.Ledger
	// pools touched by this op (native multi-operator messages touch several)
	opsTouched := []string{st.Oper.Addr()}
	for k, v := range st.P {
		if strings.HasPrefix(k, "operator") && k != "operator" && v != st.Oper.Addr() {
			opsTouched = append(opsTouched, v)
		}
	}
	for _, op := range opsTouched {
		pk := op + "/" + st.Asset.ID
		pp, ok1 := pre.Operator[pk]
		qq, ok2 := post.Operator[pk]
		if !ok2 {
			continue
		}
		if !ok1 {
			pp.TotalAmount = sdkmath.ZeroInt()
			pp.TotalShare = sdkmath.LegacyZeroDec()
		}
		for k, d := range pre.Delegation {
			p := strings.Split(k, "/")
			if len(p) != 3 || p[1] != st.Asset.ID || p[2] != op || p[0] == st.Staker.ID {
				continue
			}
			if !d.UndelegatableShare.IsPositive() {
				continue
			}
			before := value(d.UndelegatableShare, pp.TotalAmount, pp.TotalShare)
			after := value(post.Delegation[k].UndelegatableShare, qq.TotalAmount, qq.TotalShare)
			diff := after.Sub(before).Abs()
			m.S.Eval("bystander")
			m.S.Case("bystander|" + st.Kind + "|" + poolClass(pp.TotalAmount, pp.TotalShare))
			if diff.GT(sdkmath.OneInt()) {
				m.S.Violate("bystander-value", st.Kind, m.Hist, st.I, "pool %s: %s of %s by %s changed %s's value %s -> %s", pk, st.Kind, st.Amount, st.Staker.ID, p[0], before, after)
			}
		}
	}
	// round trip
	key := st.Staker.ID + "/" + st.Asset.ID + "/" + st.Oper.Addr()
	pk := st.Oper.Addr() + "/" + st.Asset.ID
	if st.Kind == "delegate" {
		delete(m.rt, key)
		if d, ok := pre.Delegation[key]; !ok || d.UndelegatableShare.IsZero() {
			if len(opsTouched) == 1 {
				m.rt[key] = rtEntry{x: st.Amount, step: st.I}
			}
		}
		return
	}
	if e, ok := m.rt[key]; ok && e.step == st.I-1 && len(opsTouched) == 1 {
		if d := post.Delegation[key]; d.UndelegatableShare.IsZero() {
			// whole position undelegated right after delegating from zero
			var got *sdkmath.Int
			for k, r := range post.Undel {
				if _, old := pre.Undel[k]; old {
					continue
				}
				if r.StakerID == st.Staker.ID && r.AssetID == st.Asset.ID && r.OperatorAddr == st.Oper.Addr() {
					a := r.Amount
					got = &a
				}
			}
			m.S.Eval("round-trip")
			pp := pre.Operator[pk]
			m.S.Case("round-trip|" + poolClass(pp.TotalAmount.Sub(e.x), pp.TotalShare))
			if got == nil {
				m.S.Violate("round-trip-no-record", "", m.Hist, st.I, "no record for full undelegation %v", st.P)
			} else if got.GT(e.x) || got.LT(e.x.Sub(sdkmath.OneInt())) {
				m.S.Violate("round-trip", poolClass(pp.TotalAmount, pp.TotalShare), m.Hist, st.I, "delegated %s, full undelegation returned %s (%v)", e.x, *got, st.P)
			}
		}
	}
	delete(m.rt, key)
}

// PureShareFunctions checks the exported conversion functions on n generated triples.
func PureShareFunctions(s *Stats, r *rand.Rand, n int) {
	for i := 0; i < n; i++ {
		// pool: TA in [1, TSint], TS = integer*10^18 possibly with fractional dust
		tsInt := randBig(r, 1+r.Intn(140))
		ts := sdkmath.LegacyNewDecFromBigInt(tsInt)
		if r.Intn(3) == 0 {
			ts = ts.Add(sdkmath.LegacyNewDecWithPrec(int64(r.Intn(1_000_000)), 18))
		}
		var ta *big.Int
		switch r.Intn(5) {
		case 0:
			ta = new(big.Int).Set(tsInt)
		case 1:
			ta = big.NewInt(1)
		case 2:
			ta = new(big.Int).Rand(r, tsInt)
			ta.Add(ta, big.NewInt(1))
		case 3:
			ta = new(big.Int).Quo(tsInt, big.NewInt(2))
			ta.Add(ta, big.NewInt(1))
		default:
			ta = new(big.Int).Sub(tsInt, big.NewInt(int64(r.Intn(3))))
			if ta.Sign() <= 0 {
				ta = big.NewInt(1)
			}
		}
		x := randBig(r, 1+r.Intn(130))
		TA := sdkmath.NewIntFromBigInt(ta)
		X := sdkmath.NewIntFromBigInt(x)
		var sh sdkmath.LegacyDec
		var back sdkmath.Int
		var err1, err2 error
		pan := func() (p interface{}) {
			defer func() { p = recover() }()
			sh, err1 = delegationkeeper.SharesFromTokens(ts, X, TA)
			if err1 == nil {
				back, err2 = delegationkeeper.TokensFromShares(sh, ts.Add(sh), TA.Add(X))
			}
			return nil
		}()
		s.Eval("pure-round-trip")
		cls := poolClass(TA, ts)
		if pan != nil {
			// checked-arithmetic overflow of the 256-bit Int / 315-bit Dec is the math library's defined
			// behaviour for out-of-range intermediate values (the caller's transaction fails); it is counted,
			// not judged. Any other panic (nil dereference, division by zero, ...) is a violation.
			msg := fmt.Sprint(pan)
			if strings.Contains(msg, "overflow") || strings.Contains(msg, "out of range") {
				s.Eval("pure-out-of-domain")
				continue
			}
			s.Violate("pure-panic", cls, "pure", i, "SharesFromTokens/TokensFromShares panicked: %v (TS=%s TA=%s x=%s)", pan, ts, TA, X)
			continue
		}
		if err1 != nil || err2 != nil {
			s.Violate("pure-error", cls, "pure", i, "unexpected error %v %v (TS=%s TA=%s x=%s)", err1, err2, ts, TA, X)
			continue
		}
		s.Case("pure|" + cls)
		if back.GT(X) || back.LT(X.Sub(sdkmath.OneInt())) {
			s.Violate("pure-round-trip", cls, "pure", i, "x=%s came back as %s (TS=%s TA=%s share=%s)", X, back, ts, TA, sh)
		}
	}
	// documented error cases
	if _, err := delegationkeeper.SharesFromTokens(sdkmath.LegacyNewDec(5), sdkmath.NewInt(1), sdkmath.ZeroInt()); err == nil {
		s.Violate("pure-zero-divisor", "SharesFromTokens", "pure", 0, "zero total amount with non-zero shares must be an error")
	}
	if _, err := delegationkeeper.TokensFromShares(sdkmath.LegacyZeroDec(), sdkmath.LegacyZeroDec(), sdkmath.NewInt(7)); err == nil {
		s.Violate("pure-zero-divisor", "TokensFromShares", "pure", 0, "zero total share with non-zero amount must be an error")
	}
	s.EvalN("pure-error-cases", 2)
}

func randBig(r *rand.Rand, bits int) *big.Int {
	b := new(big.Int).Lsh(big.NewInt(1), uint(bits))
	x := new(big.Int).Rand(r, b)
	x.Add(x, big.NewInt(1))
	return x
}
