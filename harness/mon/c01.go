package mon

import (
	"os"
	"fmt"
	"math/big"
	"strings"

	sdkmath "cosmossdk.io/math"
	"github.com/cosmos/gogoproto/proto"

	operatortypes "github.com/ExocoreNetwork/exocore/x/operator/types"

	"verif/ops"
	"verif/sim"
)

// C01 — ledger conservation, step-wise.
type C01 struct {
	S    *Stats
	Hist string
	// cumulative acknowledged deposits / withdrawals per asset
	dep, wdr map[string]Z
	genesis  map[string]Z // StakingTotalAmount at start
	started  bool
}

func NewC01(hist string) *C01 {
	return &C01{S: NewStats("C01"), Hist: hist, dep: map[string]Z{}, wdr: map[string]Z{}, genesis: map[string]Z{}}
}

func assetOfKey(k string, idx int) string {
	p := strings.Split(k, "/")
	if idx < len(p) {
		return p[idx]
	}
	return ""
}

// SumS computes S(a) for every asset: withdrawable + pools + owed by pending undelegations.
func SumS(l *sim.Ledger) map[string]Z {
	out := map[string]Z{}
	add := func(a string, v sdkmath.Int) {
		if v.IsNil() {
			return
		}
		out[a] = zget(out, a).Add(ZI(v))
	}
	for k, v := range l.Staker {
		add(assetOfKey(k, 1), v.WithdrawableAmount)
	}
	for k, v := range l.Operator {
		add(assetOfKey(k, 1), v.TotalAmount)
	}
	for _, r := range l.Undel {
		add(r.AssetID, r.ActualCompletedAmount)
	}
	return out
}

// NewSlashInfos returns slash infos present in post but not in pre (operator store).
func NewSlashInfos(pre, post sim.Raw) map[string]operatortypes.OperatorSlashInfo {
	out := map[string]operatortypes.OperatorSlashInfo{}
	pfx := operatortypes.KeyPrefixOperatorSlashInfo[0]
	for k, v := range post["operator"] {
		if len(k) == 0 || k[0] != pfx {
			continue
		}
		if _, ok := pre["operator"][k]; ok {
			continue
		}
		var x operatortypes.OperatorSlashInfo
		if err := proto.Unmarshal(v, &x); err == nil {
			out[k[1:]] = x
		}
	}
	return out
}

func zero() sdkmath.Int { return sdkmath.ZeroInt() }

func get(m map[string]sdkmath.Int, k string) sdkmath.Int {
	if v, ok := m[k]; ok {
		return v
	}
	return zero()
}

func (m *C01) OnStep(w *ops.World, st *ops.Step) {
	if st.Pre == nil || st.Post == nil {
		return
	}
	pre, post := st.Pre.Ledger, st.Post.Ledger
	if !m.started {
		m.started = true
		for a, info := range pre.Asset {
			m.genesis[a] = ZI(info.StakingTotalAmount)
		}
		m.checkStatic(w, st, pre)
	}
	sPre, sPost := SumS(pre), SumS(post)
	assets := map[string]bool{}
	for a := range sPre {
		assets[a] = true
	}
	for a := range sPost {
		assets[a] = true
	}
	for a := range post.Asset {
		assets[a] = true
	}
	// expected delta per asset
	opAsset := ""
	if st.Asset != nil {
		opAsset = st.Asset.ID
	}
	newSlash := NewSlashInfos(st.Pre.Raw, st.Post.Raw)
	slashed := map[string]Z{}
	for _, info := range newSlash {
		if info.ExecutionInfo == nil {
			continue
		}
		for _, p := range info.ExecutionInfo.SlashAssetsPool {
			slashed[p.AssetID] = zget(slashed, p.AssetID).Add(ZI(p.Amount))
		}
		for _, u := range info.ExecutionInfo.SlashUndelegations {
			slashed[u.AssetID] = zget(slashed, u.AssetID).Add(ZI(u.Amount))
		}
	}
	for a := range assets {
		d := zget(sPost, a).Sub(zget(sPre, a))
		m.S.Eval("delta")
		cls := fmt.Sprintf("%s|%s|ack=%v|sign=%d", st.Kind, assetKind(w, a), st.Ack, d.Sign())
		if !d.IsZero() {
			m.S.Case(cls)
		}
		bad := func(f string, x ...interface{}) {
			m.S.Violate("delta-"+st.Kind, assetKind(w, a), m.Hist, st.I, "asset %s ΔS=%s: %s (step %s %v)", a, d, fmt.Sprintf(f, x...), st.Kind, st.P)
		}
		if st.Fail {
			if st.Via == "keeper" && st.Panic != "" {
				// a keeper call of the harness that panics (checked-arithmetic overflow with astronomically large pools)
				// has no production counterpart that keeps the partial writes: inside a transaction baseapp rolls the
				// whole transaction back, inside EndBlock the chain stops (C11 judges that)
				m.S.Eval("keeper-step-panic-not-judged")
				continue
			}
			if !d.IsZero() {
				if os.Getenv("VERIF_C01_DEBUG") != "" && st.Staker != nil && st.Pre != nil {
					fmt.Printf("C01-DEBUG pre row %+v\n", st.Pre.Ledger.Staker[st.Staker.ID+"/"+a])
					for k, u := range st.Pre.Ledger.Undel {
						if u.StakerID == st.Staker.ID && u.AssetID == a {
							fmt.Printf("C01-DEBUG pre undel %s amount=%s actual=%s\n", k, u.Amount, u.ActualCompletedAmount)
						}
					}
					fmt.Printf("C01-DEBUG post row %+v err=%s\n", st.Post.Ledger.Staker[st.Staker.ID+"/"+a], st.Err)
					for k, u := range st.Post.Ledger.Undel {
						if u.StakerID == st.Staker.ID && u.AssetID == a {
							fmt.Printf("C01-DEBUG post undel %s amount=%s actual=%s\n", k, u.Amount, u.ActualCompletedAmount)
						}
					}
				}
				bad("failed operation changed the ledger sum")
			}
			continue
		}
		native := a == w.Native.ID
		switch st.Kind {
		case "deposit":
			if a == opAsset && !native {
				if !d.Equal(ZI(st.Amount)) {
					bad("deposit of %s", st.Amount)
				}
			} else if !d.IsZero() {
				bad("other asset moved")
			}
		case "withdraw":
			if a == opAsset && !native {
				if !d.Equal(ZI(st.Amount).Neg()) {
					bad("withdraw of %s", st.Amount)
				}
			} else if !d.IsZero() {
				bad("other asset moved")
			}
		case "delegate":
			if native && a == opAsset {
				// native token enters the ledger from the staker's bank balance
				tot := totalNative(st)
				if !d.Equal(ZI(tot)) {
					bad("native delegation of %s", tot)
				}
			} else if !d.IsZero() {
				bad("delegation changed the sum")
			}
		case "nst_update":
			if a == opAsset {
				if st.Amount.IsPositive() {
					if !d.Equal(ZI(st.Amount)) {
						bad("positive NST adjustment %s", st.Amount)
					}
				} else if d.IsPositive() {
					bad("negative NST adjustment %s increased the sum", st.Amount)
				} else if st.Staker != nil {
					// exactly min(|d|, everything the staker has) leaves the ledger: first the withdrawable balance,
					// then pending undelegations, then delegated shares (the last phase truncates per delegation)
					avail := Z{}
					if row, ok := pre.Staker[st.Staker.ID+"/"+a]; ok {
						avail = avail.Add(ZI(row.WithdrawableAmount))
					}
					beforeShares := avail
					for _, r := range pre.Undel {
						if r.StakerID == st.Staker.ID && r.AssetID == a {
							avail = avail.Add(ZI(r.ActualCompletedAmount))
						}
					}
					beforeShares = avail
					nDel := int64(0)
					delegated := Z{}
					for k, dl := range pre.Delegation {
						p := strings.Split(k, "/")
						if len(p) == 3 && p[0] == st.Staker.ID && p[1] == a && dl.UndelegatableShare.IsPositive() {
							delegated = delegated.Add(ZI(ops.Position(pre, p[0], p[1], p[2])))
							nDel++
						}
					}
					avail = avail.Add(delegated)
					want := ZI(st.Amount.Neg())
					tol := int64(0)
					if avail.LT(want) {
						want = avail
					}
					tolZ := big.NewInt(0)
					if beforeShares.LT(ZI(st.Amount.Neg())) {
						// the share phase works with an 18-decimal proportion and truncates per delegation
						tol = nDel + 1
						tolZ = new(big.Int).Quo(delegated.b(), big.NewInt(100_000_000_000_000_000))
					}
					tolZ.Add(tolZ, big.NewInt(tol))
					m.S.Eval("nst-decrease-exact")
					diff := d.Neg().Sub(want)
					if diff.b().CmpAbs(tolZ) > 0 {
						bad("negative NST adjustment %s: ledger lost %s, want min(|d|, available %s) = %s (tolerance %s)", st.Amount, d.Neg(), avail, want, tolZ)
					}
				}
			} else if !d.IsZero() {
				bad("other asset moved")
			}
		case "slash", "begin_block", "dogfood_slash":
			if d.IsPositive() {
				bad("slash/begin-block increased the sum")
			}
			if !d.Neg().Equal(zget(slashed, a)) {
				bad("reduction differs from recorded slash executions (%s)", zget(slashed, a))
			}
		case "end_block":
			if native {
				// releases pay out of the ledger into bank balances
				paid := nativeReleased(pre, post, a)
				if !d.Neg().Equal(ZI(paid)) {
					bad("native release paid %s", paid)
				}
			} else if !d.IsZero() {
				bad("end block changed the sum")
			}
		default:
			if !d.IsZero() {
				bad("operation must not change the sum")
			}
		}
	}
	if st.Ack && opAsset != "" && opAsset != w.Native.ID {
		switch st.Kind {
		case "deposit":
			m.dep[opAsset] = zget(m.dep, opAsset).Add(ZI(st.Amount))
		case "withdraw":
			m.wdr[opAsset] = zget(m.wdr, opAsset).Add(ZI(st.Amount))
		}
	}
	m.checkStatic(w, st, post)
}

func totalNative(st *ops.Step) sdkmath.Int {
	t := sdkmath.ZeroInt()
	for k, v := range st.P {
		if strings.HasPrefix(k, "amount") {
			if x, ok := sdkmath.NewIntFromString(v); ok {
				t = t.Add(x)
			}
		}
	}
	return t
}

func nativeReleased(pre, post *sim.Ledger, asset string) sdkmath.Int {
	t := sdkmath.ZeroInt()
	for k, r := range pre.Undel {
		if r.AssetID != asset {
			continue
		}
		if _, ok := post.Undel[k]; !ok {
			t = t.Add(r.ActualCompletedAmount)
		}
	}
	return t
}

func assetKind(w *ops.World, id string) string {
	if id == w.Native.ID {
		return "native"
	}
	if a := w.AssetByID(id); a != nil && a.NST {
		return "nst"
	}
	return "lst"
}

// checkStatic: non-negativity, published total, escrow.
func (m *C01) checkStatic(w *ops.World, st *ops.Step, l *sim.Ledger) {
	neg := func(what, key string, isNeg bool) {
		m.S.Eval("nonneg")
		if isNeg {
			m.S.Violate("negative", what, m.Hist, st.I, "%s %s negative after %s", what, key, st.Kind)
		}
	}
	for k, v := range l.Staker {
		neg("staker.TotalDeposit", k, v.TotalDepositAmount.IsNegative())
		neg("staker.Withdrawable", k, v.WithdrawableAmount.IsNegative())
		neg("staker.Pending", k, v.PendingUndelegationAmount.IsNegative())
	}
	for k, v := range l.Operator {
		neg("operator.TotalAmount", k, v.TotalAmount.IsNegative())
		neg("operator.Pending", k, v.PendingUndelegationAmount.IsNegative())
		neg("operator.TotalShare", k, v.TotalShare.IsNegative())
		neg("operator.OperatorShare", k, v.OperatorShare.IsNegative())
	}
	for k, v := range l.Delegation {
		neg("delegation.Share", k, v.UndelegatableShare.IsNegative())
		neg("delegation.Wait", k, v.WaitUndelegationAmount.IsNegative())
	}
	for k, v := range l.Undel {
		neg("undelegation.Amount", k, v.Amount.IsNegative())
		neg("undelegation.Actual", k, v.ActualCompletedAmount.IsNegative())
	}
	for a, info := range l.Asset {
		m.S.Eval("published-total")
		want := zget(m.genesis, a).Add(zget(m.dep, a)).Sub(zget(m.wdr, a))
		if _, ok := m.genesis[a]; !ok {
			continue // asset registered later: not tracked from its start
		}
		if !ZI(info.StakingTotalAmount).Equal(want) {
			m.S.Violate("published-total", assetKind(w, a), m.Hist, st.I, "asset %s StakingTotalAmount=%s, deposits-withdrawals=%s after %s %v", a, info.StakingTotalAmount, want, st.Kind, st.P)
		}
	}
	// escrow
	need := Z{}
	for k, v := range l.Operator {
		if assetOfKey(k, 1) == w.Native.ID {
			need = need.Add(ZI(v.TotalAmount))
		}
	}
	for _, r := range l.Undel {
		if r.AssetID == w.Native.ID {
			need = need.Add(ZI(r.ActualCompletedAmount))
		}
	}
	m.S.Eval("escrow")
	if ZI(l.Escrow).LT(need) {
		m.S.Violate("escrow", "native", m.Hist, st.I, "delegated_pool holds %s < pools+pending %s after %s", l.Escrow, need, st.Kind)
	}
	if need.IsPositive() {
		m.S.Case("escrow-covered-nonzero")
	}
	for _, e := range l.ParseErrors {
		m.S.Violate("unparsable", "store", m.Hist, st.I, "%s", e)
	}
}

// Z is an unbounded integer (the monitors' own sums must not overflow where the code's 256-bit Int does).
type Z struct{ v *big.Int }

func ZI(i sdkmath.Int) Z {
	if i.IsNil() {
		return Z{}
	}
	return Z{new(big.Int).Set(i.BigInt())}
}
func (a Z) b() *big.Int {
	if a.v == nil {
		return new(big.Int)
	}
	return a.v
}
func (a Z) Add(o Z) Z        { return Z{new(big.Int).Add(a.b(), o.b())} }
func (a Z) Sub(o Z) Z        { return Z{new(big.Int).Sub(a.b(), o.b())} }
func (a Z) Neg() Z           { return Z{new(big.Int).Neg(a.b())} }
func (a Z) Equal(o Z) bool   { return a.b().Cmp(o.b()) == 0 }
func (a Z) LT(o Z) bool      { return a.b().Cmp(o.b()) < 0 }
func (a Z) IsZero() bool     { return a.b().Sign() == 0 }
func (a Z) IsPositive() bool { return a.b().Sign() > 0 }
func (a Z) Sign() int        { return a.b().Sign() }
func (a Z) String() string   { return a.b().String() }
func zget(m map[string]Z, k string) Z { return m[k] }
