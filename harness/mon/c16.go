package mon

import (
	"encoding/hex"
	"fmt"
	"sort"
	"strings"

	avstypes "github.com/ExocoreNetwork/exocore/x/avs/types"

	"verif/ops"
	"verif/sim"
)

// C16 — epoch-scheduled unbonding queues.
type C16 struct {
	S    *Stats
	Hist string
	// shadow: entry ("optout|addr", "prune|consaddr", "undel|recordkey") -> epoch at which it must be released
	due      map[string]int64
	released map[string]int
}

func NewC16(hist string) *C16 {
	return &C16{S: NewStats("C16"), Hist: hist, due: map[string]int64{}, released: map[string]int{}}
}

func flatten(q map[int64][]string, kind string) map[string]int64 {
	out := map[string]int64{}
	for e, l := range q {
		for _, x := range l {
			out[kind+"|"+x] = e
		}
	}
	return out
}

func allQueues(d *sim.DogState) map[string]int64 {
	out := flatten(d.OptOuts, "optout")
	for k, v := range flatten(d.Prune, "prune") {
		out[k] = v
	}
	for k, v := range flatten(d.Mature, "undel") {
		out[k] = v
	}
	return out
}

func sortedCopy(a []string) []string {
	b := append([]string{}, a...)
	sort.Strings(b)
	return b
}

func sameList(a, b []string) bool {
	a, b = sortedCopy(a), sortedCopy(b)
	if len(a) != len(b) {
		return false
	}
	for i := range a {
		if a[i] != b[i] {
			return false
		}
	}
	return true
}

func (m *C16) OnStep(w *ops.World, st *ops.Step) {
	if st.Pre == nil || st.Post == nil {
		return
	}
	pre, post := st.Pre, st.Post
	chain := avstypes.ChainIDWithoutRevision(w.C.ChainID)
	id := pre.Dog.Params.EpochIdentifier
	ePre, ePost := pre.Epochs[id].CurrentEpoch, post.Epochs[id].CurrentEpoch
	N := int64(pre.Dog.Params.EpochsUntilUnbonded)
	qPre, qPost := allQueues(pre.Dog), allQueues(post.Dog)

	switch st.Kind {
	case "begin_block":
		closed := ePost == ePre+1 && pre.Epochs[id].EpochCountingStarted
		// entries may only leave queues here, and only those of the closed epoch
		for k, e := range qPre {
			if _, still := qPost[k]; still {
				continue
			}
			m.S.Eval("queue-exit")
			if !closed || e != ePre {
				m.S.Violate("entry-left-queue-at-wrong-time", strings.Split(k, "|")[0], m.Hist, st.I, "entry %s of epoch queue %d left its queue in the BeginBlock of block %d (dogfood epoch %d -> %d)", k, e, st.Height, ePre, ePost)
			}
		}
		for k := range qPost {
			if _, had := qPre[k]; !had {
				m.S.Violate("entry-appeared-in-begin-block", strings.Split(k, "|")[0], m.Hist, st.I, "entry %s appeared in a queue during BeginBlock", k)
			}
		}
		if closed {
			m.S.Eval("queue-to-pending")
			if !sameList(post.Dog.PendingOptOuts, pre.Dog.OptOuts[ePre]) {
				m.S.Violate("pending-list-differs-from-queue", "optout", m.Hist, st.I, "epoch %d closed: pending opt-outs %v, queue had %v", ePre, post.Dog.PendingOptOuts, pre.Dog.OptOuts[ePre])
			}
			if !sameList(post.Dog.PendingCons, pre.Dog.Prune[ePre]) {
				m.S.Violate("pending-list-differs-from-queue", "prune", m.Hist, st.I, "epoch %d closed: pending consensus addresses %v, queue had %v", ePre, post.Dog.PendingCons, pre.Dog.Prune[ePre])
			}
			if !sameList(post.Dog.PendingUndel, pre.Dog.Mature[ePre]) {
				m.S.Violate("pending-list-differs-from-queue", "undel", m.Hist, st.I, "epoch %d closed: pending undelegations %q, queue had %q", ePre, post.Dog.PendingUndel, pre.Dog.Mature[ePre])
			}
			if len(post.Dog.PendingOptOuts) > 0 {
				m.S.Eval("closing-block-with-pending-optouts")
			}
			if !post.Dog.EpochEnd {
				m.S.Violate("epoch-end-not-marked", "", m.Hist, st.I, "dogfood epoch %d closed but the epoch-end marker is not set", ePre)
			}
			n := len(pre.Dog.OptOuts[ePre]) + len(pre.Dog.Prune[ePre]) + len(pre.Dog.Mature[ePre])
			if n > 0 {
				m.S.Case(fmt.Sprintf("drain|optouts=%d|prunes=%d|undels=%d", min(len(pre.Dog.OptOuts[ePre]), 2), min(len(pre.Dog.Prune[ePre]), 2), min(len(pre.Dog.Mature[ePre]), 3)))
			}
			// shadow: everything due at ePre is in the queue being drained, nothing else
			for k, e := range m.due {
				if e == ePre {
					m.S.Eval("due-entry-drained")
					if qe, ok := qPre[k]; !ok || qe != ePre {
						m.S.Violate("due-entry-not-in-queue", strings.Split(k, "|")[0], m.Hist, st.I, "entry %s registered for epoch %d is not in that queue when the epoch closes", k, e)
					}
					m.released[k]++
					delete(m.due, k)
				} else if e < ePre {
					m.S.Violate("entry-left-behind", strings.Split(k, "|")[0], m.Hist, st.I, "entry %s was due at epoch %d, current epoch is %d", k, e, ePost)
					delete(m.due, k)
				}
			}
		} else if len(post.Dog.PendingOptOuts)+len(post.Dog.PendingCons)+len(post.Dog.PendingUndel) > 0 {
			m.S.Violate("pending-list-outside-epoch-end", "", m.Hist, st.I, "pending lists non-empty although no dogfood epoch closed in block %d", st.Height)
		}
	case "end_block":
		// queue contents do not change in EndBlock
		for k, e := range qPre {
			if e2, ok := qPost[k]; !ok || e2 != e {
				m.S.Violate("queue-changed-in-end-block", strings.Split(k, "|")[0], m.Hist, st.I, "entry %s (epoch %d) changed in EndBlock", k, e)
			}
		}
		m.S.Eval("pending-cleared")
		if len(post.Dog.PendingOptOuts)+len(post.Dog.PendingCons)+len(post.Dog.PendingUndel) > 0 || post.Dog.EpochEnd {
			m.S.Violate("pending-not-cleared", "", m.Hist, st.I, "pending lists / epoch-end marker survive EndBlock of block %d: %v %v %q marker=%v", st.Height, post.Dog.PendingOptOuts, post.Dog.PendingCons, post.Dog.PendingUndel, post.Dog.EpochEnd)
		}
		// effects of the pending lists
		for _, rk := range pre.Dog.PendingUndel {
			m.S.Eval("hold-decremented")
			if pre.Ledger.Hold[rk] == 0 || post.Ledger.Hold[rk] != pre.Ledger.Hold[rk]-1 {
				m.S.Violate("hold-not-decremented-once", "", m.Hist, st.I, "record %s: hold %d -> %d at its maturity", rk, pre.Ledger.Hold[rk], post.Ledger.Hold[rk])
			}
		}
		for k, v := range post.Ledger.Hold {
			if v != pre.Ledger.Hold[k] {
				found := false
				for _, rk := range pre.Dog.PendingUndel {
					if rk == k {
						found = true
					}
				}
				if !found {
					m.S.Violate("hold-changed-without-maturity", "", m.Hist, st.I, "record %s: hold %d -> %d in EndBlock but it was not pending", k, pre.Ledger.Hold[k], v)
				}
			}
		}
		for _, op := range pre.Dog.PendingOptOuts {
			m.S.Eval("optout-completed")
			if post.Op.Removal[op+"|"+chain] {
				m.S.Violate("optout-not-completed", "", m.Hist, st.I, "operator %s still has its key-removal marker after its opt-out matured", op)
			}
			if _, ok := post.Op.Fwd[op+"|"+chain]; ok {
				m.S.Violate("optout-not-completed", "key", m.Hist, st.I, "operator %s still has a consensus key after its opt-out matured", op)
			}
		}
		for _, ca := range pre.Dog.PendingCons {
			m.S.Eval("address-pruned")
			if owner, ok := post.Op.Rev[chain+"|"+ca]; ok {
				// still legitimately present only if it is somebody's current key again
				if cur, has := post.Op.Fwd[owner+"|"+chain]; !(has && consAddrOfKeyHex(cur) == ca) {
					m.S.Violate("address-not-pruned", "", m.Hist, st.I, "consensus address %s still resolvable after its pruning epoch", ca)
				}
			}
		}
		// nothing left behind in any queue of a past epoch
		for k, e := range qPost {
			m.S.Eval("no-stale-queue")
			if e < ePost {
				m.S.Violate("stale-queue-entry", strings.Split(k, "|")[0], m.Hist, st.I, "entry %s sits in the queue of epoch %d, current epoch is %d", k, e, ePost)
			}
		}
	default:
		// transactions / keeper steps: new registrations
		for k, e := range qPost {
			if old, had := qPre[k]; had {
				if old != e {
					m.S.Violate("entry-moved-between-queues", strings.Split(k, "|")[0], m.Hist, st.I, "entry %s moved from epoch %d to %d", k, old, e)
				}
				continue
			}
			kind := strings.Split(k, "|")[0]
			want := ePre + N
			via := "validator"
			if kind == "undel" {
				// the record key starts with the operator's address
				recOp := strings.Split(strings.SplitN(k, "|", 2)[1], "/")[0]
				if pre.Op.Removal[recOp+"|"+chain] {
					if oe, ok := pre.Dog.OptOutEpoch[recOp]; ok {
						want = oe
						via = "opting-out"
					}
				}
			}
			m.S.Eval("registered-epoch")
			m.S.Case(fmt.Sprintf("register|%s|%s|N=%d", kind, via, N))
			if e != want {
				m.S.Violate("registered-for-wrong-epoch", kind+"|"+via, m.Hist, st.I, "entry %s registered at dogfood epoch %d with N=%d in queue %d, want %d (%s %v)", k, ePre, N, e, want, st.Kind, st.P)
			}
			if m.released[k] > 0 && kind == "undel" {
				m.S.Violate("entry-registered-again", kind, m.Hist, st.I, "entry %s registered again after release", k)
			}
			m.due[k] = e
		}
		for k, e := range qPre {
			if _, still := qPost[k]; !still {
				m.S.Violate("entry-left-queue-at-wrong-time", strings.Split(k, "|")[0], m.Hist, st.I, "entry %s (epoch %d) left its queue in a %s step", k, e, st.Kind)
			}
		}
		if st.Kind == "undelegate" && st.Ack && st.Oper != nil {
			m.holdDecision(w, st, chain)
		}
	}
}

func (m *C16) holdDecision(w *ops.World, st *ops.Step, chain string) {
	pre, post := st.Pre, st.Post
	for k, r := range post.Ledger.Undel {
		if _, old := pre.Ledger.Undel[k]; old {
			continue
		}
		op := r.OperatorAddr
		inSetKey := func(hexKey string) bool {
			if hexKey == "" {
				return false
			}
			_, ok := pre.Dog.Validators[consAddrOfKeyHex(hexKey)]
			return ok
		}
		removing := pre.Op.Removal[op+"|"+chain]
		if pre.Dog.EpochEnd {
			for _, po := range pre.Dog.PendingOptOuts {
				if po == op {
					m.S.Case("undelegation-in-the-block-that-matures-the-operators-opt-out")
				}
			}
		}
		cur := pre.Op.Fwd[op+"|"+chain]
		prev := pre.Op.Prev[chain+"|"+op]
		wantHold := uint64(0)
		cls := "not-in-set"
		switch {
		case removing:
			if _, ok := pre.Dog.OptOutEpoch[op]; ok {
				wantHold = 1
				cls = "opting-out"
			} else {
				cls = "opted-out-before-activation"
			}
		case inSetKey(cur):
			wantHold, cls = 1, "current-key-in-set"
		case cur != "" && inSetKey(prev):
			wantHold, cls = 1, "previous-key-in-set"
		case cur == "" && inSetKey(prev):
			// the operator replaced an active key and then left before the new key was ever active: its old key
			// still validates until the epoch ends, but it has no current key. The statement does not say how
			// such an undelegation is treated; observed, not judged.
			m.S.Eval("hold-decision-not-judged")
			m.S.Case("hold-decision|no-current-key-but-previous-in-set")
			continue
		case cur == "":
			cls = "no-key"
		}
		if wantHold == 0 && !removing {
			// independent of the stored previous-key record: a key this operator set earlier (the harness remembers
			// every acknowledged key) that is still in the validator set and is not another operator's current key
			// means the operator is still validating with it until the epoch ends
			if o := w.OperByAddr(op); o != nil {
				for _, key := range o.Keys {
					ca := strings.ToUpper(hex.EncodeToString(key.ConsAddr()))
					if _, in := pre.Dog.Validators[ca]; !in {
						continue
					}
					owner := pre.Op.Rev[chain+"|"+ca]
					if owner == "" || owner == op {
						wantHold, cls = 1, "earlier-key-of-this-operator-in-set"
					}
				}
			}
		}
		m.S.Eval("hold-decision")
		m.S.Case("hold-decision|" + cls)
		got := post.Ledger.Hold[k]
		if got != wantHold {
			m.S.Violate("hold-decision", cls, m.Hist, st.I, "undelegation %s from operator in state %s got hold count %d, want %d", k, cls, got, wantHold)
		}
		_, queued := allQueues(post.Dog)["undel|"+k]
		if (wantHold == 1) != queued {
			m.S.Violate("hold-without-queue-entry", cls, m.Hist, st.I, "undelegation %s: hold %d but queued=%v", k, got, queued)
		}
	}
}
