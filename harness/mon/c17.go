package mon

import (
	"fmt"
	"math/big"
	"strings"

	sdkmath "cosmossdk.io/math"
	sdk "github.com/cosmos/cosmos-sdk/types"
	authtypes "github.com/cosmos/cosmos-sdk/x/auth/types"
	"github.com/cosmos/gogoproto/proto"

	exominttypes "github.com/ExocoreNetwork/exocore/x/exomint/types"
	distrtypes "github.com/ExocoreNetwork/exocore/x/feedistribution/types"

	"verif/ops"
	"verif/sim"
)

// C17 — native supply and fee distribution.
type C17 struct {
	S    *Stats
	Hist string
	// Burned is set by the workload for steps that legitimately burn coins (none in these profiles)
}

func NewC17(hist string) *C17 { return &C17{S: NewStats("C17"), Hist: hist} }

// Claims parsed from the feedistribution store: amounts of the base denom as raw 18-decimal integers.
type Claims struct {
	Community   *big.Int
	Commission  map[string]*big.Int // validator (hex of address bytes)
	Outstanding map[string]*big.Int
	Staker      map[string]*big.Int
}

func decCoinsAmount(dc sdk.DecCoins, denom string) *big.Int {
	return new(big.Int).Set(dc.AmountOf(denom).BigInt())
}

func ParseClaims(raw sim.Raw, denom string) *Claims {
	c := &Claims{Community: new(big.Int), Commission: map[string]*big.Int{}, Outstanding: map[string]*big.Int{}, Staker: map[string]*big.Int{}}
	fp := string(distrtypes.FeePoolKey)
	for k, v := range raw["feedistribution"] {
		switch {
		case k == fp:
			var x distrtypes.FeePool
			if proto.Unmarshal(v, &x) == nil {
				c.Community = decCoinsAmount(x.CommunityPool, denom)
			}
		case len(k) > 0 && k[0] == distrtypes.ValidatorAccumulatedCommissionPrefix[0] && !strings.HasPrefix(k, "fee"):
			var x distrtypes.ValidatorAccumulatedCommission
			if proto.Unmarshal(v, &x) == nil {
				c.Commission[fmt.Sprintf("%x", k[2:])] = decCoinsAmount(x.Commission, denom)
			}
		case len(k) > 0 && k[0] == distrtypes.ValidatorOutstandingRewardsPrefix[0]:
			var x distrtypes.ValidatorOutstandingRewards
			if proto.Unmarshal(v, &x) == nil {
				c.Outstanding[fmt.Sprintf("%x", k[2:])] = decCoinsAmount(x.Rewards, denom)
			}
		case len(k) > 0 && k[0] == distrtypes.StakerOutstandingRewardsPrefix[0]:
			var x distrtypes.StakerOutstandingRewards
			if proto.Unmarshal(v, &x) == nil {
				c.Staker[k[2:]] = decCoinsAmount(x.Rewards, denom)
			}
		}
	}
	return c
}

func (c *Claims) Total() *big.Int {
	t := new(big.Int).Set(c.Community)
	for _, v := range c.Commission {
		t.Add(t, v)
	}
	for _, v := range c.Staker {
		t.Add(t, v)
	}
	return t
}

func sumMap(m map[string]*big.Int) *big.Int {
	t := new(big.Int)
	for _, v := range m {
		t.Add(t, v)
	}
	return t
}

func (m *C17) OnStep(w *ops.World, st *ops.Step) {
	if st.Pre == nil || st.Post == nil {
		return
	}
	pre, post := st.Pre, st.Post
	denom := "hua"
	collector := authtypes.NewModuleAddress(authtypes.FeeCollectorName).String()
	distr := authtypes.NewModuleAddress(distrtypes.ModuleName).String()

	// mint / distribution params from the stores
	var mp exominttypes.Params
	if v, ok := pre.Raw["exomint"][string(exominttypes.KeyPrefixParams())]; ok {
		_ = proto.Unmarshal(v, &mp)
	}
	var dp distrtypes.Params
	for k, v := range pre.Raw["feedistribution"] {
		if k == string(distrtypes.KeyPrefixParams) {
			_ = proto.Unmarshal(v, &dp)
		}
	}
	ended := map[string]int64{}
	if st.Kind == "begin_block" {
		for id, e := range post.Epochs {
			p, ok := pre.Epochs[id]
			if ok && p.EpochCountingStarted && e.CurrentEpoch == p.CurrentEpoch+1 {
				ended[id] = p.CurrentEpoch
			}
		}
	}
	// supply: changes only by the epoch reward at mint-epoch ends
	m.S.Eval("supply")
	wantMint := sdkmath.ZeroInt()
	if _, ok := ended[mp.EpochIdentifier]; ok && !mp.EpochReward.IsNil() {
		wantMint = mp.EpochReward
	}
	dSupply := post.Supply.Sub(pre.Supply)
	if !dSupply.Equal(wantMint) {
		m.S.Violate("supply-change", st.Kind, m.Hist, st.I, "total supply changed by %s in a %s step, expected mint %s (mint identifier %q, ended %v)", dSupply, st.Kind, wantMint, mp.EpochIdentifier, ended)
	}
	if wantMint.IsPositive() {
		m.S.Case("mint|reward>0")
	}

	cPre, cPost := ParseClaims(pre.Raw, denom), ParseClaims(post.Raw, denom)
	// solvency at every step
	m.S.Eval("solvency")
	bal := post.Ledger.Bal[distr]
	balRaw := new(big.Int).Mul(bal.BigInt(), e18)
	if cPost.Total().Cmp(balRaw) > 0 {
		m.S.Violate("claims-exceed-distribution-balance", "", m.Hist, st.I, "booked claims %s e-18 exceed the distribution account balance %s after %s", cPost.Total(), bal, st.Kind)
	}
	if _, ok := ended[dp.EpochIdentifier]; !ok {
		// claims only change at distribution epoch ends
		m.S.Eval("claims-stable")
		if cPost.Total().Cmp(cPre.Total()) != 0 {
			m.S.Violate("claims-changed-outside-distribution", st.Kind, m.Hist, st.I, "booked claims changed from %s to %s in a %s step", cPre.Total(), cPost.Total(), st.Kind)
		}
		return
	}
	// a distribution epoch ended in this BeginBlock
	// epoch identifiers tick in store (lexicographic) order; inside one identifier the distribution hook runs
	// before the mint hook. So freshly minted coins are part of the moved balance only when the mint identifier
	// differs from, and sorts before, the distribution identifier and both ended in this block.
	mintFirst := wantMint.IsPositive() && mp.EpochIdentifier != dp.EpochIdentifier && mp.EpochIdentifier < dp.EpochIdentifier
	F := pre.Ledger.Bal[collector]
	if mintFirst {
		F = F.Add(wantMint)
	}
	Fraw := new(big.Int).Mul(F.BigInt(), e18)
	m.S.Eval("moved")
	moved := post.Ledger.Bal[distr].Sub(pre.Ledger.Bal[distr])
	if !moved.Equal(F) {
		m.S.Violate("collector-not-moved", "", m.Hist, st.I, "fee collector held %s before the epoch end, distribution account received %s", F, moved)
	}
	wantCollector := wantMint // the mint hook runs after the distribution hook
	if mintFirst {
		wantCollector = sdkmath.ZeroInt()
	}
	if mintFirst {
		m.S.Case("mint-identifier-ticks-before-distribution-identifier")
	}
	if !post.Ledger.Bal[collector].Equal(wantCollector) {
		m.S.Violate("collector-balance-after", "", m.Hist, st.I, "fee collector holds %s after the epoch end, want the freshly minted %s", post.Ledger.Bal[collector], wantCollector)
	}
	m.S.Eval("booked-equals-moved")
	booked := new(big.Int).Sub(cPost.Total(), cPre.Total())
	dCommunity := new(big.Int).Sub(cPost.Community, cPre.Community)
	dCommission := new(big.Int).Sub(sumMap(cPost.Commission), sumMap(cPre.Commission))
	dStaker := new(big.Int).Sub(sumMap(cPost.Staker), sumMap(cPre.Staker))
	nStakers := 0
	for k, v := range cPost.Staker {
		if p, ok := cPre.Staker[k]; !ok || p.Cmp(v) != 0 {
			nStakers++
		}
	}
	totalPower := pre.Dog.LastTotalPower
	cls := fmt.Sprintf("fees=%v|power=%v|vals=%d|stakers-paid=%d|tax=%s", F.IsPositive(), totalPower.IsPositive(), min(len(pre.Dog.Validators), 4), min(nStakers, 3), taxClass(dp.CommunityTax))
	m.S.Case(cls)
	if booked.Cmp(Fraw) != 0 {
		m.S.Violate("booked-differs-from-moved", bookedSite(booked, Fraw), m.Hist, st.I, "moved %s (=%s e-18) but booked %s e-18: community %s + commissions %s + staker rewards %s (validators %d, stakers paid %d, total power %s)", F, Fraw, booked, dCommunity, dCommission, dStaker, len(pre.Dog.Validators), nStakers, totalPower)
	}
	// per validator: proportional to power, split by commission
	if totalPower.IsPositive() && F.IsPositive() {
		tax := dp.CommunityTax
		for ca, v := range pre.Dog.Validators {
			op, ok := pre.Op.Rev[chainOf(w)+"|"+ca]
			if !ok {
				continue
			}
			acc, _ := sdk.AccAddressFromBech32(op)
			key := fmt.Sprintf("%x", []byte(acc))
			dOut := new(big.Int).Sub(orZero(cPost.Outstanding[key]), orZero(cPre.Outstanding[key]))
			// exact: F*(1-tax)*power/total, in 1e-18 units
			num := new(big.Int).Mul(Fraw, new(big.Int).Sub(e18, tax.BigInt()))
			num.Mul(num, big.NewInt(v.Power))
			den := new(big.Int).Mul(e18, totalPower.BigInt())
			exact := new(big.Int).Quo(num, den)
			m.S.Eval("validator-portion")
			lo := new(big.Int).Sub(exact, big.NewInt(4))
			if dOut.Cmp(exact) > 0 || dOut.Cmp(lo) < 0 {
				// the truncating power fraction (18 decimals) times the fee can lose up to F*1e-18 units
				slack := new(big.Int).Add(new(big.Int).Quo(Fraw, e18), big.NewInt(4))
				if dOut.Cmp(exact) > 0 || new(big.Int).Sub(exact, dOut).Cmp(slack) > 0 {
					m.S.Violate("validator-portion", "", m.Hist, st.I, "validator %s power %d/%s: outstanding grew by %s e-18, proportional share is %s e-18", op, v.Power, totalPower, dOut, exact)
				}
			}
			dCom := new(big.Int).Sub(orZero(cPost.Commission[key]), orZero(cPre.Commission[key]))
			rate := operatorRate(w, op)
			if rate != nil {
				want := new(big.Int).Mul(dOut, rate)
				want.Quo(want, e18)
				diff := new(big.Int).Sub(dCom, want)
				m.S.Eval("commission-split")
				if diff.CmpAbs(big.NewInt(1)) > 0 {
					m.S.Violate("commission-split", "", m.Hist, st.I, "validator %s: commission grew by %s e-18, rate %s of its portion %s is %s", op, dCom, rate, dOut, want)
				}
			}
		}
	}
}

func orZero(b *big.Int) *big.Int {
	if b == nil {
		return new(big.Int)
	}
	return b
}

func taxClass(t sdkmath.LegacyDec) string {
	switch {
	case t.IsNil() || t.IsZero():
		return "0"
	case t.Equal(sdkmath.LegacyOneDec()):
		return "1"
	}
	return "(0,1)"
}

func bookedSite(booked, moved *big.Int) string {
	if booked.Cmp(moved) > 0 {
		return "over-booked"
	}
	return "under-booked"
}

func chainOf(w *ops.World) string {
	c := w.C.ChainID
	if i := strings.LastIndex(c, "-"); i > 0 {
		return c[:i]
	}
	return c
}

func operatorRate(w *ops.World, op string) *big.Int {
	info, err := w.C.App.OperatorKeeper.OperatorInfo(w.C.Ctx(), op)
	if err != nil || info == nil || info.Commission.Rate.IsNil() {
		return nil
	}
	return info.Commission.Rate.BigInt()
}
