package mon

import (
	"fmt"
	"math/big"
	"strings"

	sdkmath "cosmossdk.io/math"

	operatortypes "github.com/ExocoreNetwork/exocore/x/operator/types"
	oracletypes "github.com/ExocoreNetwork/exocore/x/oracle/types"

	"verif/ops"
	"verif/sim"
)

// C05 — voting power equals priced, eligible stake. Judged right after each BeginBlock that closed an epoch.
type C05 struct {
	S    *Stats
	Hist string
	// tokenID per asset from the oracle params (read once per step via the keeper's params getter)
}

func NewC05(hist string) *C05 { return &C05{S: NewStats("C05"), Hist: hist} }

type refPrice struct {
	v   *big.Int
	dec uint8
	cls string
}

func (m *C05) prices(w *ops.World, st *ops.Step) map[string]refPrice {
	// asset -> token id from the oracle params in the store; latest rounds from raw store bytes
	params := w.C.App.OracleKeeper.GetParams(w.C.Ctx())
	latest := sim.LatestPrices(st.Pre.Raw)
	out := map[string]refPrice{}
	for tid, tk := range params.Tokens {
		if tid == 0 || tk == nil {
			continue
		}
		for _, aid := range strings.Split(tk.AssetID, ",") {
			if aid == "" {
				continue
			}
			rp := refPrice{v: big.NewInt(oracletypes.DefaultPriceValue), dec: oracletypes.DefaultPriceDecimal, cls: "default"}
			if p, ok := latest[uint64(tid)]; ok {
				if v, ok2 := new(big.Int).SetString(p.Price, 10); ok2 && v.Sign() > 0 {
					rp = refPrice{v: v, dec: uint8(p.Decimal), cls: fmt.Sprintf("dec%d", p.Decimal)}
				}
			}
			out[aid] = rp
		}
	}
	out[w.Native.ID] = refPrice{v: big.NewInt(oracletypes.DefaultPriceValue), dec: oracletypes.DefaultPriceDecimal, cls: "native-default"}
	return out
}

func (m *C05) OnStep(w *ops.World, st *ops.Step) {
	if st.Kind != "begin_block" || st.Pre == nil || st.Post == nil {
		return
	}
	pre, post := st.Pre, st.Post
	ended := map[string]int64{}
	for id, e := range post.Epochs {
		p, ok := pre.Epochs[id]
		if ok && p.EpochCountingStarted && e.CurrentEpoch == p.CurrentEpoch+1 {
			ended[id] = p.CurrentEpoch
		}
	}
	if len(ended) == 0 {
		return
	}
	var prices map[string]refPrice
	// the epoch hooks run first in BeginBlock (before slashing/evidence), so the pools, association, opt-in state
	// and AVS registry the voting-power update saw are those of the state before this BeginBlock
	for addr, avs := range pre.AVS {
		n, ok := ended[avs.EpochIdentifier]
		if !ok || n < int64(avs.StartingEpoch)-1 {
			continue
		}
		if prices == nil {
			prices = m.prices(w, st)
		}
		// assets of the AVS must all be priced (statement's "latest oracle price" undefined otherwise)
		defined := true
		decs := map[string]uint32{}
		for _, a := range avs.AssetIDs {
			if _, ok := prices[a]; !ok {
				defined = false
			}
			info, ok := pre.Ledger.Asset[a]
			if !ok && a != w.Native.ID {
				defined = false
			}
			decs[a] = info.AssetBasicInfo.Decimals
			if a == w.Native.ID {
				decs[a] = 18
				if i2, ok2 := pre.Ledger.Asset[a]; ok2 {
					decs[a] = i2.AssetBasicInfo.Decimals
				}
			}
		}
		if !defined || len(avs.AssetIDs) == 0 {
			m.S.Eval("avs-not-judged")
			continue
		}
		minSelf := new(big.Int).Mul(new(big.Int).SetUint64(avs.MinSelfDelegation), e18)
		avsSum := new(big.Int)
		seenOps := 0
		for k, usd := range post.Op.USD {
			p := strings.SplitN(k, "/", 2)
			if len(p) != 2 || p[0] != addr {
				continue
			}
			op := p[1]
			seenOps++
			total, self, selfR := new(big.Int), new(big.Int), new(big.Int)
			nAssets := 0
			pcls := map[string]bool{}
			for _, a := range avs.AssetIDs {
				pool, ok := pre.Ledger.Operator[op+"/"+a]
				if !ok {
					continue
				}
				nAssets++
				pr := prices[a]
				pcls[pr.cls] = true
				total.Add(total, usdFloor18(pool.TotalAmount.BigInt(), pr.v, decs[a], pr.dec))
				// token equivalent of the self share: floor(OS*TA/TS); the 18-decimal fixed point used by the
				// chain rounds the quotient to 18 decimals before truncating, which can add one base unit when
				// the exact quotient is within 1e-18 of an integer - both readings are accepted
				selfAmt, selfAmtR := new(big.Int), new(big.Int)
				if pool.TotalShare.IsPositive() {
					num := new(big.Int).Mul(pool.OperatorShare.BigInt(), pool.TotalAmount.BigInt())
					selfAmt.Quo(num, pool.TotalShare.BigInt())
					n18 := new(big.Int).Mul(num, e18)
					q, r := new(big.Int).QuoRem(n18, pool.TotalShare.BigInt(), new(big.Int))
					if new(big.Int).Lsh(r, 1).Cmp(pool.TotalShare.BigInt()) >= 0 {
						q.Add(q, big.NewInt(1))
					}
					selfAmtR.Quo(q, e18)
				}
				self.Add(self, usdFloor18(selfAmt, pr.v, decs[a], pr.dec))
				selfR.Add(selfR, usdFloor18(selfAmtR, pr.v, decs[a], pr.dec))
			}
			gotSelf := usd.SelfUSDValue.BigInt()
			if gotSelf.Cmp(selfR) == 0 {
				self = selfR
			}
			active := new(big.Int)
			elig := self.Cmp(minSelf) >= 0
			if elig {
				active.Set(total)
				avsSum.Add(avsSum, total)
			}
			m.S.Eval("operator-values")
			bad := ""
			if usd.TotalUSDValue.BigInt().Cmp(total) != 0 {
				bad += fmt.Sprintf(" total=%s want %s;", usd.TotalUSDValue, sdkmath.LegacyNewDecFromBigIntWithPrec(total, 18))
			}
			if usd.SelfUSDValue.BigInt().Cmp(self) != 0 {
				bad += fmt.Sprintf(" self=%s want %s;", usd.SelfUSDValue, sdkmath.LegacyNewDecFromBigIntWithPrec(self, 18))
			}
			if usd.ActiveUSDValue.BigInt().Cmp(active) != 0 {
				bad += fmt.Sprintf(" active=%s want %s;", usd.ActiveUSDValue, sdkmath.LegacyNewDecFromBigIntWithPrec(active, 18))
			}
			if usd.TotalUSDValue.IsNegative() || usd.SelfUSDValue.IsNegative() || usd.ActiveUSDValue.IsNegative() {
				bad += " negative value;"
			}
			if bad != "" {
				for _, a := range avs.AssetIDs {
					if pool, ok := pre.Ledger.Operator[op+"/"+a]; ok {
						bad += fmt.Sprintf(" [pool %s TA=%s TS=%s OS=%s price=%s/%d dec=%d]", a, pool.TotalAmount, pool.TotalShare, pool.OperatorShare, prices[a].v, prices[a].dec, decs[a])
					}
				}
				m.S.Violate("operator-usd-value", fmt.Sprintf("assets=%d", min(nAssets, 3)), m.Hist, st.I, "AVS %s (epoch %s #%d, minSelf %d) operator %s:%s", addr, avs.EpochIdentifier, n, avs.MinSelfDelegation, op, bad)
			}
			var pc []string
			for c := range pcls {
				pc = append(pc, c)
			}
			m.S.Case(fmt.Sprintf("%s|assets=%d|price=%s|eligible=%v|zero=%v", avs.EpochIdentifier, min(nAssets, 3), strings.Join(sortStrings(pc), "+"), elig, total.Sign() == 0))
			// opted state must agree with having an entry
			info, ok := pre.Op.Opted[op+"/"+addr]
			if !ok || info.OptedOutHeight != operatortypes.DefaultOptedOutHeight {
				m.S.Violate("value-entry-for-non-opted-operator", "", m.Hist, st.I, "operator %s has a value entry for AVS %s but is not opted in", op, addr)
			}
		}
		// every operator that is opted in must have been valued: an opted-in operator whose pools are worth something
		// and that has no value entry at all was skipped by the refresh
		for k, info := range pre.Op.Opted {
			p := strings.SplitN(k, "/", 2)
			if len(p) != 2 || p[1] != addr || info.OptedOutHeight != operatortypes.DefaultOptedOutHeight {
				continue
			}
			if _, has := post.Op.USD[addr+"/"+p[0]]; has {
				continue
			}
			m.S.Eval("opted-in-operator-has-entry")
			total := new(big.Int)
			for _, a := range avs.AssetIDs {
				if pool, ok := pre.Ledger.Operator[p[0]+"/"+a]; ok {
					total.Add(total, usdFloor18(pool.TotalAmount.BigInt(), prices[a].v, decs[a], prices[a].dec))
				}
			}
			if total.Sign() > 0 {
				m.S.Violate("operator-usd-value", "missing-entry", m.Hist, st.I, "AVS %s (epoch %s #%d): operator %s is opted in, its pools are worth %s, but it has no value entry after the epoch end", addr, avs.EpochIdentifier, n, p[0], sdkmath.LegacyNewDecFromBigIntWithPrec(total, 18))
			}
		}
		m.S.Eval("avs-value")
		got, ok := post.Op.AVSUSD[addr]
		if !ok {
			if seenOps > 0 || avsSum.Sign() != 0 {
				m.S.Violate("avs-usd-value", "missing", m.Hist, st.I, "AVS %s has no value entry after its epoch end (want %s)", addr, avsSum)
			}
		} else if got.BigInt().Cmp(avsSum) != 0 {
			m.S.Violate("avs-usd-value", "sum", m.Hist, st.I, "AVS %s value %s, sum of active values %s", addr, got, sdkmath.LegacyNewDecFromBigIntWithPrec(avsSum, 18))
		}
	}
}

func sortStrings(a []string) []string {
	for i := 1; i < len(a); i++ {
		for j := i; j > 0 && a[j] < a[j-1]; j-- {
			a[j], a[j-1] = a[j-1], a[j]
		}
	}
	return a
}
