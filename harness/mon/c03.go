package mon

import (
	"fmt"
	"strings"

	sdkmath "cosmossdk.io/math"
	"github.com/ethereum/go-ethereum/common/hexutil"

	delegationtypes "github.com/ExocoreNetwork/exocore/x/delegation/types"

	"verif/ops"
	"verif/sim"
)

// C03 — exit path.
type C03 struct {
	S    *Stats
	Hist string
	// shadow of live records: key -> original completion height and identity
	live     map[string]shadowRec
	released map[string]bool
	started  bool
	// OperState classifies the operator's lifecycle state for evidence (set by the workload).
	OperState func(w *ops.World, o *ops.Oper) string
}

type shadowRec struct {
	rec      delegationtypes.UndelegationRecord
	c0       uint64
	origin   string
	everHeld bool
	heldPast bool
	opState  string
}

func NewC03(hist string) *C03 {
	return &C03{S: NewStats("C03"), Hist: hist, live: map[string]shadowRec{}, released: map[string]bool{}}
}

func sameIdentity(a, b delegationtypes.UndelegationRecord) bool {
	return a.StakerID == b.StakerID && a.AssetID == b.AssetID && a.OperatorAddr == b.OperatorAddr &&
		a.TxHash == b.TxHash && a.LzTxNonce == b.LzTxNonce && a.BlockNumber == b.BlockNumber && a.Amount.Equal(b.Amount)
}

func (m *C03) OnStep(w *ops.World, st *ops.Step) {
	if st.Pre == nil || st.Post == nil {
		return
	}
	pre, post := st.Pre.Ledger, st.Post.Ledger
	if !m.started {
		m.started = true
		for k, r := range pre.Undel {
			m.live[k] = shadowRec{rec: r, c0: r.CompleteBlockNumber, origin: "genesis"}
		}
		m.structure(w, st, pre)
	}
	h := uint64(st.Height)

	// acceptance
	if st.Kind == "undelegate" && st.Staker != nil && st.Asset != nil {
		m.acceptUndelegate(w, st)
	}
	// NST withdrawals additionally name a beacon-chain validator that must be known to the oracle's NST
	// registry (a precondition outside the statement), so acceptance is judged for LST assets only.
	if st.Kind == "withdraw" && st.Staker != nil && st.Asset != nil && !st.Asset.Native && !st.Asset.NST {
		row, ok := pre.Staker[st.Staker.ID+"/"+st.Asset.ID]
		if ok && st.Amount.IsPositive() && st.Amount.LTE(row.WithdrawableAmount) {
			m.S.Eval("withdraw-accepted")
			m.S.Case("withdraw-accepted|" + assetKind(w, st.Asset.ID))
			if !st.Ack && strings.Contains(st.Err, "failed to obtain coinbase address") {
				m.S.Violate("withdraw-refused", "evm-proposer-unresolvable", m.Hist, st.I, "withdraw refused because the EVM cannot resolve the block proposer: %s", trunc(st.Err, 200))
			} else if !st.Ack {
				m.S.Violate("withdraw-refused", assetKind(w, st.Asset.ID), m.Hist, st.I, "withdraw %s within withdrawable %s refused: %s %v", st.Amount, row.WithdrawableAmount, st.Err, st.P)
			}
		}
	}

	// a negative NST balance update is slashing applied to pending records: after the withdrawable balance,
	// the staker's pending undelegations absorb exactly min(rest, what they still owe)
	if st.Kind == "nst_update" && st.Ack && st.Amount.IsNegative() && st.Staker != nil && st.Asset != nil {
		wd := Z{}
		if row, ok := pre.Staker[st.Staker.ID+"/"+st.Asset.ID]; ok {
			wd = ZI(row.WithdrawableAmount)
		}
		owed, cut := Z{}, Z{}
		n := 0
		for k, r := range pre.Undel {
			if r.StakerID != st.Staker.ID || r.AssetID != st.Asset.ID {
				continue
			}
			n++
			owed = owed.Add(ZI(r.ActualCompletedAmount))
			if q, ok := post.Undel[k]; ok {
				cut = cut.Add(ZI(r.ActualCompletedAmount).Sub(ZI(q.ActualCompletedAmount)))
			}
		}
		rest := ZI(st.Amount.Neg()).Sub(wd)
		if rest.Sign() < 0 {
			rest = Z{}
		}
		want := rest
		if owed.LT(want) {
			want = owed
		}
		if n > 0 {
			m.S.Eval("nst-slash-on-pending")
			cls := "untouched"
			if want.IsPositive() && want.LT(owed) {
				cls = "ends-inside-pending"
			} else if want.IsPositive() {
				cls = "consumes-all-pending"
			}
			m.S.Case("nst-slash-on-pending|" + cls)
			if !cut.Equal(want) {
				m.S.Violate("nst-slash-not-applied-to-pending", cls, m.Hist, st.I, "NST decrease %s (withdrawable %s): pending records of %s lost %s in total, want %s (they owed %s)", st.Amount, wd, st.Staker.ID, cut, want, owed)
			}
		}
	}

	// new records
	var newKeys []string
	for k := range post.Undel {
		if _, ok := pre.Undel[k]; !ok {
			newKeys = append(newKeys, k)
		}
	}
	if st.Kind == "undelegate" && st.Ack {
		m.checkCreation(w, st, newKeys)
	} else if len(newKeys) > 0 {
		m.S.Violate("record-appeared", st.Kind, m.Hist, st.I, "records %v appeared in a %s step (ack=%v)", newKeys, st.Kind, st.Ack)
	}

	// vanished records
	type credit struct{ actual, amount Z }
	perStaker := map[string]credit{} // staker/asset
	vanished := 0
	for k, r := range pre.Undel {
		q, still := post.Undel[k]
		sh, known := m.live[k]
		if !known {
			sh = shadowRec{rec: r, c0: r.CompleteBlockNumber, origin: "unknown"}
		}
		if still {
			m.S.Eval("record-stable")
			if !sameIdentity(r, q) {
				m.S.Violate("record-mutated", st.Kind, m.Hist, st.I, "record %s identity changed: %+v -> %+v", k, r, q)
			}
			if st.Kind == "end_block" {
				hold := post.Hold[k]
				due := h >= sh.c0 && hold == 0
				m.S.Eval("not-late")
				if due {
					m.S.Violate("late-or-lost", recClass(w, sh), m.Hist, st.I, "record %s (c0=%d, stored completion %d) still pending after end of block %d with hold 0", k, sh.c0, r.CompleteBlockNumber, h)
				}
				if hold > 0 {
					sh.everHeld = true
					if h >= sh.c0 {
						sh.heldPast = true
					}
					m.live[k] = sh
				}
				if !q.ActualCompletedAmount.Equal(r.ActualCompletedAmount) {
					m.S.Violate("record-amount-changed-in-endblock", "", m.Hist, st.I, "record %s actual %s -> %s", k, r.ActualCompletedAmount, q.ActualCompletedAmount)
				}
			}
			continue
		}
		// vanished
		vanished++
		m.S.Eval("release")
		if m.released[k] {
			m.S.Violate("double-release", "", m.Hist, st.I, "record %s released twice", k)
		}
		m.released[k] = true
		delete(m.live, k)
		if st.Kind != "end_block" {
			m.S.Violate("released-outside-endblock", st.Kind, m.Hist, st.I, "record %s disappeared in %s", k, st.Kind)
			continue
		}
		hold := post.Hold[k]
		if h < sh.c0 || hold != 0 {
			m.S.Violate("early-release", recClass(w, sh), m.Hist, st.I, "record %s released at height %d, completion %d, hold %d", k, h, sh.c0, hold)
		}
		hp := "nohold"
		if sh.heldPast {
			hp = "held-past-completion"
		} else if sh.everHeld {
			hp = "held-then-released"
		}
		m.S.Case(fmt.Sprintf("release|%s|%s|%s|%s", sh.opState, hp, assetKind(w, r.AssetID), sh.origin))
		key := r.StakerID + "/" + r.AssetID
		c := perStaker[key]
		c.actual = c.actual.Add(ZI(r.ActualCompletedAmount))
		c.amount = c.amount.Add(ZI(r.Amount))
		perStaker[key] = c
	}
	if st.Kind == "end_block" {
		if vanished > 1 {
			m.S.Case(fmt.Sprintf("release-multiplicity|%d", min(vanished, 4)))
		}
		// credits: exactly the released amounts, nobody else moves
		for k, row := range post.Staker {
			p, ok := pre.Staker[k]
			if !ok {
				continue
			}
			c := perStaker[k]
			m.S.Eval("credit")
			if !ZI(row.WithdrawableAmount).Sub(ZI(p.WithdrawableAmount)).Equal(c.actual) {
				m.S.Violate("credit-mismatch", assetKind(w, assetOfKey(k, 1)), m.Hist, st.I, "staker row %s withdrawable %s -> %s, released records pay %s", k, p.WithdrawableAmount, row.WithdrawableAmount, c.actual)
			}
		}
		for k, c := range perStaker {
			if assetOfKey(k, 1) == w.Native.ID {
				// native token: paid to the bank account
				addrHex := strings.Split(k, "_")[0]
				bz, err := hexutil.Decode(addrHex)
				if err != nil {
					continue
				}
				for acc, bal := range post.Bal {
					if accBytesEq(acc, bz) {
						m.S.Eval("credit-native")
						if !ZI(bal).Sub(ZI(pre.Bal[acc])).Equal(c.actual) {
							m.S.Violate("credit-mismatch", "native", m.Hist, st.I, "native staker %s balance %s -> %s, released %s", acc, pre.Bal[acc], bal, c.actual)
						}
					}
				}
				continue
			}
			if _, ok := post.Staker[k]; !ok {
				m.S.Violate("credit-mismatch", "row-missing", m.Hist, st.I, "released record for %s but no staker row", k)
			}
		}
	}
	m.structure(w, st, post)
}

func accBytesEq(bech string, bz []byte) bool {
	a, err := sdkAccFromBech32(bech)
	if err != nil {
		return false
	}
	return string(a) == string(bz)
}

func recClass(w *ops.World, sh shadowRec) string {
	return assetKind(w, sh.rec.AssetID) + "|" + sh.origin
}

func (m *C03) acceptUndelegate(w *ops.World, st *ops.Step) {
	pre := st.Pre.Ledger
	// every (operator, amount) of the message must be within the position
	type leg struct {
		op  string
		amt sdkmath.Int
	}
	var legs []leg
	if st.Via == "cosmos" {
		for i := 0; ; i++ {
			o, ok := st.P[fmt.Sprintf("operator%d", i)]
			if !ok {
				break
			}
			a, _ := sdkmath.NewIntFromString(st.P[fmt.Sprintf("amount%d", i)])
			legs = append(legs, leg{o, a})
		}
	} else if st.Oper != nil {
		legs = []leg{{st.Oper.Addr(), st.Amount}}
	}
	if len(legs) == 0 {
		return
	}
	seenOp := map[string]bool{}
	for _, l := range legs {
		if seenOp[l.op] {
			return // same operator twice in one message: positions interact; not judged
		}
		seenOp[l.op] = true
		pos := ops.Position(pre, st.Staker.ID, st.Asset.ID, l.op)
		if !l.amt.IsPositive() || l.amt.GT(pos) {
			return
		}
	}
	if st.P["nonce_reused"] == "1" {
		return
	}
	state := "?"
	if m.OperState != nil && st.Oper != nil {
		state = m.OperState(w, st.Oper)
	}
	m.S.Eval("undelegate-accepted")
	m.S.Case("accept|" + state + "|" + assetKind(w, st.Asset.ID))
	if !st.Ack && (strings.Contains(st.Err, "overflow") || strings.Contains(st.Panic, "overflow") || strings.Contains(st.Err, "out of bound") || strings.Contains(st.Panic, "out of bound")) {
		// checked-arithmetic overflow for astronomically large positions: its own signature
		m.S.Violate("undelegate-refused", "arith-overflow", m.Hist, st.I, "undelegation within position refused by arithmetic overflow: %s %v", trunc(st.Err, 120), st.P)
	} else if !st.Ack && strings.Contains(st.Err, "failed to obtain coinbase address") {
		// every EVM transaction of the block fails because the block proposer's consensus address no longer
		// resolves to an operator (root cause: C07 finding "reverse lookup deleted at once")
		m.S.Violate("undelegate-refused", "evm-proposer-unresolvable", m.Hist, st.I, "undelegation within position refused because the EVM cannot resolve the block proposer: %s %v", trunc(st.Err, 200), st.P)
	} else if !st.Ack {
		m.S.Violate("undelegate-refused", state, m.Hist, st.I, "undelegation within position refused (operator state %s): %s %s %v", state, st.Err, st.Panic, st.P)
	}
}

func (m *C03) checkCreation(w *ops.World, st *ops.Step, newKeys []string) {
	pre, post := st.Pre.Ledger, st.Post.Ledger
	expected := 1
	if st.Via == "cosmos" {
		expected = 0
		for k := range st.P {
			if strings.HasPrefix(k, "operator") && k != "operator" {
				expected++
			}
		}
	}
	m.S.Eval("one-record")
	if len(newKeys) != expected {
		m.S.Violate("record-count", st.Via, m.Hist, st.I, "acknowledged undelegation with %d operator(s) created %d new record(s) %v (%v)", expected, len(newKeys), newKeys, st.P)
	}
	state := "?"
	if m.OperState != nil && st.Oper != nil {
		state = m.OperState(w, st.Oper)
	}
	for _, k := range newKeys {
		r := post.Undel[k]
		if m.released[k] {
			m.S.Violate("record-key-reused", "", m.Hist, st.I, "record key %s reused after release", k)
		}
		pk := r.OperatorAddr + "/" + r.AssetID
		removed := pre.Operator[pk].TotalAmount.Sub(post.Operator[pk].TotalAmount)
		m.S.Eval("record-fields")
		ok := r.StakerID == st.Staker.ID && r.AssetID == st.Asset.ID && r.BlockNumber == uint64(st.Height) &&
			r.CompleteBlockNumber >= uint64(st.Height) && r.Amount.Equal(r.ActualCompletedAmount) && r.Amount.Equal(removed)
		if !ok {
			m.S.Violate("record-fields", st.Via, m.Hist, st.I, "new record %s = %+v; pool lost %s at height %d (%v)", k, r, removed, st.Height, st.P)
		}
		m.live[k] = shadowRec{rec: r, c0: r.CompleteBlockNumber, origin: "tx", opState: state}
	}
	if expected > 1 {
		m.S.Case(fmt.Sprintf("multi-operator-message|%d", expected))
	}
}

// structure: index bijection and aggregates.
func (m *C03) structure(w *ops.World, st *ops.Step, l *sim.Ledger) {
	stakerPend := map[string]Z{}
	operPend := map[string]Z{}
	delWait := map[string]Z{}
	add := func(mm map[string]Z, k string, v sdkmath.Int) {
		mm[k] = mm[k].Add(ZI(v))
	}
	// index entries pointing at each record (format-agnostic: the statement only needs every record to be
	// reachable through exactly one entry of each index, under its staker/asset resp. completion height)
	sIdx := map[string][]string{}
	pIdx := map[string][]string{}
	for k, v := range l.StakerIdx {
		sIdx[v] = append(sIdx[v], k)
	}
	for k, v := range l.PendingIdx {
		pIdx[v] = append(pIdx[v], k)
	}
	for k, r := range l.Undel {
		add(stakerPend, r.StakerID+"/"+r.AssetID, r.Amount)
		add(operPend, r.OperatorAddr+"/"+r.AssetID, r.Amount)
		add(delWait, r.StakerID+"/"+r.AssetID+"/"+r.OperatorAddr, r.Amount)
		m.S.Eval("index")
		wantS := r.StakerID + "/" + r.AssetID + "/"
		wantP := hexutil.EncodeUint64(r.CompleteBlockNumber) + "/"
		okS := len(sIdx[k]) == 1 && strings.HasPrefix(sIdx[k][0], wantS)
		okP := len(pIdx[k]) == 1 && strings.HasPrefix(pIdx[k][0], wantP)
		if !okS {
			m.S.Violate("staker-index", idxSite(sIdx[k]), m.Hist, st.I, "record %s (staker prefix %q): staker index entries pointing at it: %q after %s %v", k, wantS, sIdx[k], st.Kind, st.P)
		}
		if !okP {
			m.S.Violate("pending-index", idxSite(pIdx[k]), m.Hist, st.I, "record %s (completion %d): pending index entries pointing at it: %q after %s %v", k, r.CompleteBlockNumber, pIdx[k], st.Kind, st.P)
		}
	}
	for k, v := range l.StakerIdx {
		m.S.Eval("index")
		if _, ok := l.Undel[v]; !ok {
			m.S.Violate("dangling-staker-index", "", m.Hist, st.I, "staker index %s -> missing record %s", k, v)
		}
	}
	for k, v := range l.PendingIdx {
		m.S.Eval("index")
		if _, ok := l.Undel[v]; !ok {
			m.S.Violate("dangling-pending-index", "", m.Hist, st.I, "pending index %s -> missing record %s", k, v)
		}
	}
	if len(l.Undel) >= 2 {
		m.S.Case(fmt.Sprintf("concurrent-records|%d", min(len(l.Undel), 8)))
	}
	for k, row := range l.Staker {
		m.S.Eval("aggregate")
		if !ZI(row.PendingUndelegationAmount).Equal(stakerPend[k]) {
			m.S.Violate("staker-pending-aggregate", assetKind(w, assetOfKey(k, 1)), m.Hist, st.I, "staker %s pending=%s Σrecords=%s after %s %v", k, row.PendingUndelegationAmount, stakerPend[k], st.Kind, st.P)
		}
	}
	for k, row := range l.Operator {
		m.S.Eval("aggregate")
		if !ZI(row.PendingUndelegationAmount).Equal(operPend[k]) {
			m.S.Violate("operator-pending-aggregate", assetKind(w, assetOfKey(k, 1)), m.Hist, st.I, "operator %s pending=%s Σrecords=%s after %s %v", k, row.PendingUndelegationAmount, operPend[k], st.Kind, st.P)
		}
	}
	for k, row := range l.Delegation {
		m.S.Eval("aggregate")
		if !ZI(row.WaitUndelegationAmount).Equal(delWait[k]) {
			m.S.Violate("delegation-wait-aggregate", "", m.Hist, st.I, "delegation %s wait=%s Σrecords=%s after %s %v", k, row.WaitUndelegationAmount, delWait[k], st.Kind, st.P)
		}
	}
	for k, v := range stakerPend {
		if assetOfKey(k, 1) == w.Native.ID {
			continue
		}
		if _, ok := l.Staker[k]; !ok && v.IsPositive() {
			m.S.Violate("staker-pending-aggregate", "row-missing", m.Hist, st.I, "records for %s but no staker row", k)
		}
	}
}

func idxSite(v []string) string {
	if len(v) == 0 {
		return "missing"
	}
	if len(v) > 1 {
		return "duplicate"
	}
	return "misplaced"
}

func min(a, b int) int {
	if a < b {
		return a
	}
	return b
}
