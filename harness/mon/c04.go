package mon

import (
	"bytes"
	"fmt"
	"math/big"
	"strings"

	sdkmath "cosmossdk.io/math"

	operatortypes "github.com/ExocoreNetwork/exocore/x/operator/types"

	"verif/ops"
	"verif/sim"
)

// C04 — slashing.
type C04 struct {
	S    *Stats
	Hist string
	// executed slash identifiers: operator/avs/id
	done map[string]bool
}

func NewC04(hist string) *C04 { return &C04{S: NewStats("C04"), Hist: hist, done: map[string]bool{}} }

var e18 = new(big.Int).Exp(big.NewInt(10), big.NewInt(18), nil)

// usdFloor18 returns floor(amount*price*10^18 / 10^(dec+pdec)) as the raw 18-decimal integer.
func usdFloor18(amount, price *big.Int, dec uint32, pdec uint8) *big.Int {
	n := new(big.Int).Mul(amount, price)
	n.Mul(n, e18)
	d := new(big.Int).Exp(big.NewInt(10), big.NewInt(int64(dec)+int64(pdec)), nil)
	return n.Quo(n, d)
}

func ledgerOnly(r sim.Raw) sim.Raw { return sim.Raw{"assets": r["assets"], "delegation": r["delegation"]} }

func (m *C04) OnStep(w *ops.World, st *ops.Step) {
	if st.Pre == nil || st.Post == nil {
		return
	}
	if st.Kind != "slash" && st.Kind != "begin_block" && st.Kind != "dogfood_slash" {
		return
	}
	pre, post := st.Pre.Ledger, st.Post.Ledger
	infos := NewSlashInfos(st.Pre.Raw, st.Post.Raw)

	if st.Kind == "slash" || st.Kind == "dogfood_slash" {
		in, _ := st.Extra.(*operatortypes.SlashInputInfo)
		if in != nil {
			if st.Panic != "" {
				site := "other"
				if strings.Contains(st.Panic, "division by zero") {
					site = "division-by-zero"
				} else if strings.Contains(st.Panic, "overflow") || strings.Contains(st.Panic, "out of bound") {
					site = "arith-overflow"
				}
				if site == "arith-overflow" {
					// pools of astronomically large size (checked-arithmetic overflow) are outside C04's
					// quantifier; the resulting BeginBlock halt is C11's business. Counted, not judged.
					m.S.Eval("out-of-domain-overflow")
				} else {
					m.S.Violate("slash-panicked", site, m.Hist, st.I, "Slash panicked (%s) for %v", st.Panic, st.P)
				}
			}
			id := in.Operator.String() + "/" + in.AVSAddr + "/" + in.SlashID
			replay := m.done[id]
			m.S.Eval("error-or-replay-no-effect")
			if st.Fail || replay {
				// a call that returns an error, and any replay, must leave everything byte-identical
				if d := sim.DiffRaw(st.Pre.Raw, st.Post.Raw, 5); len(d) > 0 {
					rule := "failed-slash-changed-state"
					if replay {
						rule = "replayed-slash-id-had-effect"
					}
					m.S.Violate(rule, "operator.Keeper.Slash", m.Hist, st.I, "slash %v (ack=%v err=%s) changed %d+ keys, first: %+v", st.P, st.Ack, st.Err, len(d), d[0])
				}
				if replay {
					m.S.Case("replay|ack=" + fmt.Sprint(st.Ack))
				} else {
					m.S.Case("rejected|" + rejectClass(in))
				}
				if replay && st.Ack {
					m.S.Violate("replayed-slash-id-acknowledged", "operator.Keeper.Slash", m.Hist, st.I, "slash id %s acknowledged twice", id)
				}
				return
			}
			if st.Ack {
				m.done[id] = true
				if len(infos) != 1 {
					m.S.Violate("slash-record-count", "operator.Keeper.Slash", m.Hist, st.I, "acknowledged slash stored %d records", len(infos))
				}
			}
		}
	}
	if len(infos) == 0 {
		if st.Kind == "begin_block" {
			return
		}
	}
	// group by operator
	byOp := map[string][]operatortypes.OperatorSlashInfo{}
	for k, info := range infos {
		op := strings.Split(k, "/")[0]
		byOp[op] = append(byOp[op], info)
		m.done[k] = true
	}
	// nothing increases anywhere in the ledger; untouched operators are byte-identical
	for k, q := range post.Operator {
		p, ok := pre.Operator[k]
		op := strings.Split(k, "/")[0]
		if !ok {
			continue
		}
		m.S.Eval("no-increase")
		if q.TotalAmount.GT(p.TotalAmount) || q.TotalShare.GT(p.TotalShare) || q.PendingUndelegationAmount.GT(p.PendingUndelegationAmount) {
			m.S.Violate("slash-increased-balance", "pool", m.Hist, st.I, "pool %s grew during %s: %+v -> %+v", k, st.Kind, p, q)
		}
		if _, hit := byOp[op]; !hit {
			if !q.TotalAmount.Equal(p.TotalAmount) || !q.TotalShare.Equal(p.TotalShare) || !q.OperatorShare.Equal(p.OperatorShare) || !q.PendingUndelegationAmount.Equal(p.PendingUndelegationAmount) {
				m.S.Violate("other-operator-touched", "pool", m.Hist, st.I, "pool %s of a non-slashed operator changed during %s: %+v -> %+v", k, st.Kind, p, q)
			}
		}
	}
	for k, q := range post.Staker {
		if p, ok := pre.Staker[k]; ok {
			m.S.Eval("staker-rows-untouched")
			if !q.TotalDepositAmount.Equal(p.TotalDepositAmount) || !q.WithdrawableAmount.Equal(p.WithdrawableAmount) || !q.PendingUndelegationAmount.Equal(p.PendingUndelegationAmount) {
				m.S.Violate("staker-row-touched", "", m.Hist, st.I, "staker row %s changed during %s: %+v -> %+v", k, st.Kind, p, q)
			}
		}
	}
	for op, list := range byOp {
		if len(list) != 1 {
			m.S.Case("multi-slash-same-operator-one-step")
			continue
		}
		m.judge(w, st, op, list[0])
	}
	// records of non-slashed operators are byte-identical
	pfx := byte(3)
	for k, v := range st.Pre.Raw["delegation"] {
		if len(k) == 0 || k[0] != pfx {
			continue
		}
		op := strings.Split(k[1:], "/")[0]
		if _, hit := byOp[op]; hit {
			continue
		}
		m.S.Eval("other-records-identical")
		if v2, ok := st.Post.Raw["delegation"][k]; !ok || !bytes.Equal(v, v2) {
			m.S.Violate("other-record-touched", "", m.Hist, st.I, "record %s of a non-slashed operator changed during %s", k[1:], st.Kind)
		}
	}
}

func rejectClass(in *operatortypes.SlashInputInfo) string {
	switch {
	case in.SlashProportion.IsNil():
		return "nil-proportion"
	case in.SlashProportion.IsNegative():
		return "negative-proportion"
	case in.SlashProportion.GT(sdkmath.LegacyOneDec()):
		return "proportion>1"
	case in.Power <= 0:
		return "power<=0"
	}
	return "other"
}

func (m *C04) judge(w *ops.World, st *ops.Step, op string, info operatortypes.OperatorSlashInfo) {
	pre, post := st.Pre.Ledger, st.Post.Ledger
	ex := info.ExecutionInfo
	if ex == nil {
		m.S.Violate("no-execution-info", "", m.Hist, st.I, "slash record without execution info for %s", op)
		return
	}
	p := ex.SlashProportion
	m.S.Eval("proportion-range")
	if p.IsNil() || p.IsNegative() || p.GT(sdkmath.LegacyOneDec()) {
		m.S.Violate("proportion-out-of-range", "", m.Hist, st.I, "executed proportion %s for %s", p, op)
		return
	}
	// reference value V over all pools incl. pending at current prices (18-decimal floor per asset, as the
	// statement's "current USD value"), giving an interval for p
	ctx := w.C.Ctx()
	vLo := new(big.Int)
	nAssets := 0
	priceOK := true
	for k, pool := range pre.Operator {
		parts := strings.Split(k, "/")
		if parts[0] != op {
			continue
		}
		a := w.AssetByID(parts[1])
		if a == nil {
			priceOK = false
			continue
		}
		price, err := w.C.App.OracleKeeper.GetSpecifiedAssetsPrice(ctx, parts[1])
		if err != nil && price.Value.IsNil() {
			priceOK = false
			continue
		}
		amt := new(big.Int).Add(pool.TotalAmount.BigInt(), pool.PendingUndelegationAmount.BigInt())
		vLo.Add(vLo, usdFloor18(amt, price.Value.BigInt(), a.Decimals, price.Decimal))
		nAssets++
	}
	X := ex.SlashValue.BigInt() // 18-decimal raw
	if in, ok := st.Extra.(*operatortypes.SlashInputInfo); ok && in != nil && st.Kind != "begin_block" {
		want := sdkmath.LegacyNewDec(in.Power).Mul(in.SlashProportion)
		m.S.Eval("slash-value")
		if !want.Equal(ex.SlashValue) {
			m.S.Violate("slash-value", "", m.Hist, st.I, "recorded slash value %s, power*factor = %s", ex.SlashValue, want)
		}
	}
	pClass := "(0,1)"
	if p.IsZero() {
		pClass = "0"
	} else if p.Equal(sdkmath.LegacyOneDec()) {
		pClass = "1"
	}
	if priceOK {
		m.S.Eval("proportion-value")
		// p in [min(1, X/vHi) - 1e-18, min(1, X/vLo) + 1e-18], raw 18-decimal integers
		one := new(big.Int).Set(e18)
		vHi := new(big.Int).Add(vLo, big.NewInt(int64(nAssets)))
		quo := func(v *big.Int, up bool) *big.Int {
			if v.Sign() <= 0 {
				return new(big.Int).Set(one) // X/0 -> capped at 1
			}
			n := new(big.Int).Mul(X, e18)
			q, r := new(big.Int).QuoRem(n, v, new(big.Int))
			if up && r.Sign() > 0 {
				q.Add(q, big.NewInt(1))
			}
			if q.Cmp(one) > 0 {
				q.Set(one)
			}
			return q
		}
		lo := quo(vHi, false)
		lo.Sub(lo, big.NewInt(1))
		hi := quo(vLo, true)
		hi.Add(hi, big.NewInt(1))
		if X.Sign() == 0 {
			lo, hi = big.NewInt(0), big.NewInt(0)
		}
		got := p.BigInt()
		if got.Cmp(lo) < 0 || got.Cmp(hi) > 0 {
			m.S.Violate("proportion-value", pClass, m.Hist, st.I, "executed proportion %s outside [%s,%s]e-18 (slash value %s, operator value in [%s,%s]e-18) for %s %v", p, lo, hi, ex.SlashValue, vLo, vHi, op, st.P)
		}
	}
	// pools
	nPools, zeroed := 0, false
	recorded := map[string]sdkmath.Int{}
	for _, sp := range ex.SlashAssetsPool {
		if _, dup := recorded[sp.AssetID]; dup {
			m.S.Violate("execution-info-duplicate-pool", "", m.Hist, st.I, "asset %s listed twice", sp.AssetID)
		}
		recorded[sp.AssetID] = sp.Amount
	}
	for k, pool := range pre.Operator {
		parts := strings.Split(k, "/")
		if parts[0] != op {
			continue
		}
		nPools++
		want := sdkmath.NewIntFromBigInt(new(big.Int).Quo(new(big.Int).Mul(p.BigInt(), pool.TotalAmount.BigInt()), e18))
		q := post.Operator[k]
		got := pool.TotalAmount.Sub(q.TotalAmount)
		m.S.Eval("pool-cut")
		if !got.Equal(want) {
			m.S.Violate("pool-cut", assetKind(w, parts[1]), m.Hist, st.I, "pool %s lost %s, floor(p*amount)=%s (p=%s amount=%s)", k, got, want, p, pool.TotalAmount)
		}
		rec, ok := recorded[parts[1]]
		if !ok {
			rec = sdkmath.ZeroInt()
		}
		if !rec.Equal(got) {
			m.S.Violate("execution-info-pool", "", m.Hist, st.I, "pool %s lost %s but execution info records %s", k, got, rec)
		}
		if !q.PendingUndelegationAmount.Equal(pool.PendingUndelegationAmount) {
			m.S.Violate("pool-pending-changed", "", m.Hist, st.I, "pool %s pending %s -> %s", k, pool.PendingUndelegationAmount, q.PendingUndelegationAmount)
		}
		if q.TotalAmount.IsZero() && pool.TotalAmount.IsPositive() {
			zeroed = true
		} else if !q.TotalShare.Equal(pool.TotalShare) || !q.OperatorShare.Equal(pool.OperatorShare) {
			m.S.Violate("shares-changed-by-slash", "", m.Hist, st.I, "pool %s shares changed although not slashed to zero: %+v -> %+v", k, pool, q)
		}
	}
	// undelegations
	var evh int64 = info.EventHeight
	atRisk, safe := 0, 0
	recU := map[string]sdkmath.Int{}
	for _, su := range ex.SlashUndelegations {
		key := su.StakerID + "/" + su.AssetID
		recU[key] = get(recU, key).Add(su.Amount)
	}
	gotU := map[string]sdkmath.Int{}
	for k, r := range pre.Undel {
		if r.OperatorAddr != op {
			continue
		}
		q, ok := post.Undel[k]
		if !ok {
			m.S.Violate("record-vanished-in-slash", "", m.Hist, st.I, "record %s disappeared", k)
			continue
		}
		lost := r.ActualCompletedAmount.Sub(q.ActualCompletedAmount)
		m.S.Eval("record-cut")
		risk := int64(r.BlockNumber) >= evh && evh < st.Height
		if int64(r.BlockNumber) >= evh && evh >= st.Height {
			continue // same-height case: unreachable in production, not generated, not judged
		}
		if risk {
			atRisk++
			want := sdkmath.NewIntFromBigInt(new(big.Int).Quo(new(big.Int).Mul(p.BigInt(), r.Amount.BigInt()), e18))
			if want.GT(r.ActualCompletedAmount) {
				want = r.ActualCompletedAmount
			}
			if !lost.Equal(want) {
				m.S.Violate("record-cut", "at-risk", m.Hist, st.I, "record %s (started %d, infraction %d) lost %s, want min(floor(p*Amount),left)=%s (p=%s Amount=%s left=%s)", k, r.BlockNumber, evh, lost, want, p, r.Amount, r.ActualCompletedAmount)
			}
			key := r.StakerID + "/" + r.AssetID
			gotU[key] = get(gotU, key).Add(lost)
		} else {
			safe++
			if !lost.IsZero() {
				m.S.Violate("record-cut", "not-at-risk", m.Hist, st.I, "record %s started %d before infraction %d lost %s", k, r.BlockNumber, evh, lost)
			}
		}
		if !q.Amount.Equal(r.Amount) {
			m.S.Violate("record-amount-changed", "", m.Hist, st.I, "record %s Amount %s -> %s", k, r.Amount, q.Amount)
		}
	}
	for k, v := range recU {
		if !get(gotU, k).Equal(v) {
			m.S.Violate("execution-info-undelegation", "", m.Hist, st.I, "execution info records %s slashed from undelegations of %s, observed %s", v, k, get(gotU, k))
		}
	}
	for k, v := range gotU {
		if v.IsPositive() && !get(recU, k).Equal(v) {
			m.S.Violate("execution-info-undelegation", "", m.Hist, st.I, "undelegations of %s lost %s, execution info records %s", k, v, get(recU, k))
		}
	}
	nb := func(n int) string {
		if n == 0 {
			return "0"
		}
		if n == 1 {
			return "1"
		}
		return "2+"
	}
	m.S.Case(fmt.Sprintf("%s|p=%s|pools=%s|atrisk=%s|safe=%s|zeroed=%v", st.Kind, pClass, nb(nPools), nb(atRisk), nb(safe), zeroed))
}
