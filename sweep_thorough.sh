#!/bin/bash
# runs every thorough check in turn; prints one summary line per property (used for the pre-hand-in sweep)
cd "$(dirname "$0")"
for p in C01 C02 C03 C04 C05 C06 C07 C08 C09 C10 C11 C12 C13 C14 C15 C16 C17 C18 C19 C20; do
  ./check $p thorough > /var/tmp/thorough-$p.log 2>&1; rc=$?
  echo "$p rc=$rc $(grep 'thorough seed' /var/tmp/thorough-$p.log | tail -1 | cut -c1-170)"
  if [ $rc -ne 0 ]; then grep "VIOLATION-DETAIL\|INCONCLUSIVE\|BUILD" /var/tmp/thorough-$p.log | cut -c1-600 | head -5; fi
done
