#!/bin/bash
# runs thorough checks in turn (all, or the ones named on the command line); one summary line per property
cd "$(dirname "$0")"
LIST="${@:-C01 C02 C03 C04 C05 C06 C07 C08 C09 C10 C11 C12 C13 C14 C15 C16 C17 C18 C19 C20}"
for p in $LIST; do
  ./check $p thorough > /var/tmp/thorough-$p.log 2>&1; rc=$?
  echo "$p rc=$rc $(grep 'thorough seed' /var/tmp/thorough-$p.log | tail -1 | cut -c1-170)"
  if [ $rc -ne 0 ]; then grep "VIOLATION-DETAIL\|INCONCLUSIVE\|BUILD" /var/tmp/thorough-$p.log | cut -c1-600 | head -5; fi
done
