#!/usr/bin/env python3
# Generates MANIFEST.json from the table below (keeps the file valid by construction).
import json, subprocess
CHECKS = {
 "C01": dict(engine="ledger", cat="exploration", tech="runtime monitoring: step-wise conservation monitor over full ledger snapshots of hostile random histories",
   text="Every step of every generated history (txs through the real precompile/ante/EVM path, keeper steps, BeginBlock/EndBlock) is judged by a conservation oracle: ΔS(asset) must equal what the step kind allows, StakingTotalAmount must equal acknowledged deposits minus withdrawals, escrow >= native pools+pending, nothing negative. Exploration is the right level: the property is a relation over unbounded histories; we sample thousands of hostile ones and report exactly what was observed.",
   note="trusts: the sim ABCI driver, proto decoding of store bytes, the harness's own sum of acknowledged deposits/withdrawals; slashing amounts are taken from the recorded execution info (cross-checked by C04)", ref="DESIGN.md §5 C01"),
 "C02": dict(engine="ledger", cat="exploration", tech="runtime monitoring: share-sum/association/staker-list invariants on every snapshot, bystander-value and round-trip oracles with exact rationals, metamorphic test of the pure conversion functions",
   text="After every step the four share invariants are recomputed from raw store bytes for every pool; every delegate/undelegate is checked against every other delegator's redeemable value (exact integer arithmetic); generated round trips at every reachable exchange rate; 20 000 triples through SharesFromTokens/TokensFromShares per run.",
   note="trusts: proto decoding; pool-state classes observed are listed in evidence; checked-arithmetic overflow panics of the math library are counted as out-of-domain, not judged", ref="DESIGN.md §5 C02"),
 "C16": dict(engine="ledger", cat="exploration", tech="runtime monitoring: shadow model of the three per-epoch queues and pending lists judged at every BeginBlock/EndBlock, hold-decision oracle at every undelegation",
   text="Every queue entry is recorded with the epoch it was registered for (e+N at that time, or the operator's opt-out epoch); each BeginBlock/EndBlock is judged for entries leaving early/late, pending lists equal to the drained queue, effects applied exactly once (hold -1, key removal completed, address pruned), no stale queue, and the hold/no-hold decision for every new undelegation.",
   note="trusts: proto decoding; governance parameter changes are executed through the message router like a passed proposal; one unspecified edge (no current key but previous key still active) is observed, not judged", ref="DESIGN.md §5 C16"),
 "C03": dict(engine="ledger", cat="exploration", tech="runtime monitoring: shadow model of pending undelegation records (creation, hold, release) checked at every EndBlock, plus index-bijection and aggregate invariants on every snapshot",
   text="A shadow model remembers every record with its original completion height; every EndBlock is judged for early / late / double / lost releases and exact crediting; acceptance of in-range undelegations and LST withdrawals is asserted for every operator lifecycle state the workload reaches; index entries and the three pending aggregates are re-derived from the records after every step.",
   note="trusts: proto decoding; hold counts are read after the block's EndBlock (the delegation EndBlocker runs after dogfood's); NST withdrawal acceptance is not judged (extra validator-registry precondition)", ref="DESIGN.md §5 C03"),
 "C04": dict(engine="ledger", cat="exploration", tech="runtime monitoring: before/after full-snapshot oracle around every slash (keeper step and BeginBlock evidence/downtime), exact per-item reference arithmetic, replay detection",
   text="Every executed slash is compared item by item with a reference (p interval from exact rationals, floor(p*pool), min(floor(p*Amount), left) for at-risk records, byte-identity for everything else, execution info = observed reductions); rejected and replayed slashes must leave all eight restaking stores byte-identical.",
   note="trusts: oracle keeper's price getter for the reference value V (C05 checks pricing independently); same-height infraction with same-block undelegations is not generated (unreachable in production: slashes run in BeginBlock); astronomically large pools (arithmetic overflow) are counted out-of-domain", ref="DESIGN.md §5 C04"),
 "C05": dict(engine="ledger", cat="exploration", tech="runtime monitoring: independent big-integer reference of the USD value formula evaluated after every epoch-closing BeginBlock for every AVS/operator",
   text="After each BeginBlock that closed an epoch, every (AVS, operator) value triple and every AVS total is recomputed from raw store bytes (pools, shares, AVS registry, oracle rounds) with exact integer arithmetic and compared for equality; extra AVSs with random asset subsets / min self-delegation / epoch identifiers are registered through the real precompile and prices are moved.",
   note="trusts: oracle params getter for the asset->token mapping; the token equivalent of the self share may be either floor(exact) or floor(18-decimal-rounded quotient) (fixed-point semantics, ±1 base unit); AVSs with an unpriced asset are not judged", ref="DESIGN.md §5 C05"),
 "C06": dict(engine="ledger", cat="exploration", tech="runtime monitoring: reference top-set computation + cumulative consensus-side set + CometBFT's own ValidatorSet.UpdateWithChangeSet applied to every returned update list",
   text="Every EndBlock's update list is applied to (a) the previous stored set, (b) a cumulative consensus-side set kept by the monitor, (c) a real CometBFT ValidatorSet; all must equal the reference eligible top set and the stored set/total power; non-epoch blocks must return nothing.",
   note="trusts: proto decoding; the workload keeps one protected validator so that the set never legitimately empties (an empty set is a CometBFT consensus failure and ends the history)", ref="DESIGN.md §5 C06"),
 "C07": dict(engine="ledger", cat="exploration", tech="runtime monitoring: five-index consistency invariants on every snapshot + shadow model of ever-active consensus addresses with resolvability deadlines",
   text="After every step the five key indexes are cross-checked from raw bytes; every key-setting operation is judged against the pre-state registry; a shadow model tracks addresses that were in the stored validator set and asserts resolvability until the closing block of epoch e+N and pruning afterwards.",
   note="trusts: proto decoding; never-active keys carry no requirement (statement silent); two recorded findings (addresses that left the stored set earlier are dropped at once)", ref="DESIGN.md §5 C07"),
 "C15": dict(engine="epochs", cat="exploration", tech="runtime monitoring: reference epoch clock stepped alongside the real BeginBlocker + online trace check of every epoch notification (hook H3)",
   text="Generated identifier sets and block-time sequences aimed at boundaries (exactly on, 1 ns either side, multi-duration gaps, equal times); after every block the stored EpochInfos must equal a reference clock written from the statement and the recorded notification trace must be exactly the expected ordered sequence to the five subscribers.",
   note="trusts: hook H3 (one tracer call before each subscriber is notified, build tag verif); proto decoding of the epochs store", ref="DESIGN.md §5 C15"),
 "C17": dict(engine="fees", cat="exploration", tech="runtime monitoring: per-step supply and solvency monitor, per-epoch-end conservation of moved vs booked claims with exact big-integer arithmetic",
   text="Every step: total supply may change only by the configured reward at a mint-epoch end; booked claims (community pool + commissions + staker rewards, parsed from raw store bytes) never exceed the distribution account balance and only change at distribution epoch ends. Every distribution epoch end: collector balance moved completely, booked = moved exactly, each validator's portion proportional to power (never above the exact share) and split by its commission rate.",
   note="trusts: bank keeper balance/supply getters; operator info getter for commission rates; identifiers tick in lexicographic order (mint-before-distribution in one block is modelled when the mint identifier sorts first)", ref="DESIGN.md §5 C17"),
}
NOT_YET = {}
props=[json.loads(l)["id"] for l in open("/verif/properties.jsonl")]
checks=[]
for pid in props:
    if pid not in CHECKS: continue
    c=CHECKS[pid]
    checks.append(dict(property_id=pid, quick_cmd=f"./check {pid} quick", thorough_cmd=f"./check {pid} thorough",
        evidence_file=f"/verif/evidence/{pid}.json", replay_cmd_template=f"./check {pid} --replay {{path}}", engine=c["engine"],
        level_claimed=dict(category=c["cat"], text=c["text"], design_ref=c["ref"]), level_note=c["note"], technique=c["tech"]))
na=[dict(property_id=p, reason=NOT_YET.get(p,"check not built yet in this revision (runtime-monitoring design exists in DESIGN.md §5; not claimed until its monitor runs clean)")) for p in props if p not in CHECKS]
hooks=subprocess.run(["git","-C","/repo","log","--format=%H %s","--grep=^verif hook"],capture_output=True,text=True).stdout.strip().splitlines()
m=dict(version=1, setup_cmd="./setup.sh",
  hooks=dict(guard="verif", enable="go build -tags verif (harness/go.mod replaces github.com/ExocoreNetwork/exocore => /repo)",
     baseline_off_cmd="cd /repo && go build ./... && go test -vet=off -count=1 -timeout 25m ./...",
     source_commits=[h.split()[0] for h in hooks], add_only=True),
  engines=[dict(name="epochs", path="harness/eng/epochs.go", serves_properties=["C15"], kind_free_text="full app + generated epoch identifiers and block times + reference clock + H3 notification trace"),
    dict(name="fees", path="harness/eng/fees.go", serves_properties=["C17"], kind_free_text="full app + validators/stakers/AVSs/fee income workload + supply/claims monitor"),
    dict(name="ledger", path="harness/eng/ledger.go", serves_properties=["C01","C02","C03","C04","C05","C06","C07","C16"], kind_free_text="in-process full-app ABCI driver + seeded hostile workload + per-step snapshot monitors")],
  checks=checks, not_applicable=na,
  notes="All checks: ./check <id> <tier>; exit 0 held / 1 violation (VIOLATION line) / 2 inconclusive / 3 build failure. known_findings.json lists recorded defects and fix: commits.")
json.dump(m, open("/verif/MANIFEST.json","w"), indent=1)
print("claimed", [c["property_id"] for c in checks])
