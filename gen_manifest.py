#!/usr/bin/env python3
# Generates MANIFEST.json from the table below (keeps the file valid by construction).
import json, subprocess
CHECKS = {
 "C01": dict(engine="ledger", cat="exploration", tech="runtime monitoring: step-wise conservation monitor over full ledger snapshots of hostile random histories",
   text="Every step of every generated history (txs through the real precompile/ante/EVM path, keeper steps, BeginBlock/EndBlock) is judged by a conservation oracle: ΔS(asset) must equal what the step kind allows, StakingTotalAmount must equal acknowledged deposits minus withdrawals, escrow >= native pools+pending, nothing negative. Exploration is the right level: the property is a relation over unbounded histories; we sample thousands of hostile ones and report exactly what was observed.",
   note="trusts: the sim ABCI driver, proto decoding of store bytes, the harness's own sum of acknowledged deposits/withdrawals; slashing amounts are taken from the recorded execution info (cross-checked by C04)", ref="DESIGN.md §5 C01"),
 "C02": dict(engine="ledger", cat="exploration", tech="runtime monitoring: share-sum/association/staker-list invariants on every snapshot, bystander-value and round-trip oracles with exact rationals, metamorphic test of the pure conversion functions",
   text="After every step the four share invariants are recomputed from raw store bytes for every pool; every delegate/undelegate is checked against every other delegator's redeemable value (exact integer arithmetic); generated round trips at every reachable exchange rate; 20 000 triples through SharesFromTokens/TokensFromShares per run.",
   note="trusts: proto decoding; pool-state classes observed are listed in evidence; checked-arithmetic overflow panics of the math library are counted as out-of-domain, not judged", ref="DESIGN.md §5 C02"),
 "C03": dict(engine="ledger", cat="exploration", tech="runtime monitoring: shadow model of pending undelegation records (creation, hold, release) checked at every EndBlock, plus index-bijection and aggregate invariants on every snapshot",
   text="A shadow model remembers every record with its original completion height; every EndBlock is judged for early / late / double / lost releases and exact crediting; acceptance of in-range undelegations and LST withdrawals is asserted for every operator lifecycle state the workload reaches; index entries and the three pending aggregates are re-derived from the records after every step.",
   note="trusts: proto decoding; hold counts are read after the block's EndBlock (the delegation EndBlocker runs after dogfood's); NST withdrawal acceptance is not judged (extra validator-registry precondition)", ref="DESIGN.md §5 C03"),
}
NOT_YET = {}
props=[json.loads(l)["id"] for l in open("/verif/properties.jsonl")]
checks=[]
for pid in props:
    if pid not in CHECKS: continue
    c=CHECKS[pid]
    checks.append(dict(property_id=pid, quick_cmd=f"./check {pid} quick", thorough_cmd=f"./check {pid} thorough",
        evidence_file=f"/verif/evidence/{pid}.json", replay_cmd_template=f"./check {pid} --replay {{path}}", engine=c["engine"],
        level_claimed=dict(category=c["cat"], text=c["text"], design_ref=c["ref"]), level_note=c["note"], technique=c["tech"]))
na=[dict(property_id=p, reason=NOT_YET.get(p,"check not built yet in this revision (runtime-monitoring design exists in DESIGN.md §5; not claimed until its monitor runs clean)")) for p in props if p not in CHECKS]
hooks=subprocess.run(["git","-C","/repo","log","--format=%H %s","--grep=^verif hook"],capture_output=True,text=True).stdout.strip().splitlines()
m=dict(version=1, setup_cmd="./setup.sh",
  hooks=dict(guard="verif", enable="go build -tags verif (harness/go.mod replaces github.com/ExocoreNetwork/exocore => /repo)",
     baseline_off_cmd="cd /repo && go build ./... && go test -vet=off -count=1 -timeout 25m ./...",
     source_commits=[h.split()[0] for h in hooks], add_only=True),
  engines=[dict(name="ledger", path="harness/eng/ledger.go", serves_properties=["C01","C02","C03"], kind_free_text="in-process full-app ABCI driver + seeded hostile workload + per-step snapshot monitors")],
  checks=checks, not_applicable=na,
  notes="All checks: ./check <id> <tier>; exit 0 held / 1 violation (VIOLATION line) / 2 inconclusive / 3 build failure. known_findings.json lists recorded defects and fix: commits.")
json.dump(m, open("/verif/MANIFEST.json","w"), indent=1)
print("claimed", [c["property_id"] for c in checks])
