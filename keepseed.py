#!/usr/bin/env python3
# keepseed.py <src dir> <seed id> <property> <detected: yes/no> <check cmd> <observed line>
import sys, json, os, shutil
src, sid, prop, det, cmd, obs = sys.argv[1:7]
dst = f"/verif/seeded/{sid}"
os.makedirs(dst, exist_ok=True)
shutil.copy(f"{src}/patch.diff", dst)
for f in os.listdir(src):
    if f.endswith("_test.go") or f.endswith(".go"):
        shutil.copy(f"{src}/{f}", f"{dst}/{f}.txt")  # .txt so that the harness module does not try to compile it
meta = {}
try:
    meta = json.load(open(f"{src}/meta.json"))
except Exception as e:
    meta = {"note": "agent meta unreadable: %s" % e}
meta["breaks_property"] = prop
meta["origin"] = "independent sub-agent given only the property text and a scratch worktree"
meta["confirmed_by_me"] = "demo test copied into a scratch worktree: passes on the clean tree, fails with patch.diff applied; go build ./... succeeds with the patch"
meta["check_run"] = cmd
meta["detected"] = det
meta["observed"] = obs
json.dump(meta, open(f"{dst}/meta.json", "w"), indent=1)
print("kept", dst)
